"""Executable reference model for C07 (no blackbird import).

Data model of a program file ("prog"):
  {"name": str, "target": str|None, "includes": [spelling, ...], "comments": bool,
   "body": [item, ...]}
 item:
  {"k": "var",  "name": str, "type": "float"|"int", "e": expr}
  {"k": "op",   "op": str, "args": [expr]|None, "kwargs": [[key, expr]], "modes": [mode]}
  {"k": "call", "prog": str, "kwargs": [[param, expr]]|None, "modes": [mode]}
  {"k": "loop", "var": str, "vals": [int], "body": [op/call items]}
 expr:  {"c": number, "t": [[coef, "p"|"v", name], ...]}     affine form
 mode:  {"m": int} | {"lv": name, "plus": int}

The semantics implemented here is exactly the statement of C07: a call is replaced by
the callee's expanded operations, with the callee's modes taken in increasing order
renamed to the modes listed at the call, and its parameters bound to the keyword
arguments; include paths are resolved relative to the including file."""
import posixpath
from fractions import Fraction


class MustRaise(Exception):
    pass


class Unknown(Exception):
    pass


# ------------------------------------------------------------------ rendering
def _numtxt(x):
    if isinstance(x, int):
        return str(x)
    return repr(float(x))


def render_expr(e):
    parts = []
    for coef, kind, name in e["t"]:
        s = "{%s}" % name if kind == "p" else name
        neg = coef < 0
        a = -coef if neg else coef
        if a == 1:
            t = s
        elif hash_free_choice(name, a):
            t = "%s*%s" % (s, _numtxt(a))
        else:
            t = "%s*%s" % (_numtxt(a), s)
        parts.append(("-" if neg else "") + t)
    c = e["c"]
    if not parts:
        return _numtxt(c)
    out = parts[0]
    for t in parts[1:]:
        out += t if t.startswith("-") else "+" + t
    if c != 0:
        ct = _numtxt(c)
        out += ct if ct.startswith("-") else "+" + ct
    return out


def hash_free_choice(name, coef):
    # deterministic, hash-seed independent choice between 'p*2' and '2*p'
    return (len(name) + int(abs(coef) * 4)) % 2 == 0


def render_mode(m):
    if "m" in m:
        return str(m["m"])
    if m.get("plus"):
        return "%s+%d" % (m["lv"], m["plus"])
    return m["lv"]


def render_modes(ms, style=0):
    inner = ", ".join(render_mode(m) for m in ms)
    if len(ms) == 1 and style % 3 == 0:
        return inner
    return ("[%s]", "(%s)", "[%s]")[style % 3] % inner


def render_item(it, indent=""):
    k = it["k"]
    if k == "var":
        return [indent + "%s %s = %s" % (it["type"], it["name"], render_expr(it["e"]))]
    if k == "op":
        st = it.get("style", 0)
        if it["args"] is None:
            return [indent + "%s | %s" % (it["op"], render_modes(it["modes"], st))]
        a = [render_expr(e) for e in it["args"]] + ["%s=%s" % (key, render_expr(e)) for key, e in it["kwargs"]]
        return [indent + "%s(%s) | %s" % (it["op"], ", ".join(a), render_modes(it["modes"], st))]
    if k == "call":
        st = it.get("style", 1)
        if st % 3 == 0 and len(it["modes"]) > 1:
            st = 1
        if it["kwargs"] is None:
            return [indent + "%s | %s" % (it["prog"], render_modes(it["modes"], st))]
        a = ["%s=%s" % (key, render_expr(e)) for key, e in it["kwargs"]]
        return [indent + "%s(%s) | %s" % (it["prog"], ", ".join(a), render_modes(it["modes"], st))]
    if k == "loop":
        if it.get("range"):
            hdr = ":".join(str(v) for v in it["range"])
        else:
            hdr = "[%s]" % ", ".join(str(v) for v in it["vals"])
        lines = [indent + "for int %s in %s" % (it["var"], hdr)]
        for b in it["body"]:
            lines += render_item(b, indent + "    ")
        return lines
    raise ValueError(k)


def header_lines(prog):
    h = ["name %s" % prog["name"], "version 1.0"]
    if prog.get("target"):
        h.append("target %s" % prog["target"])
    if prog.get("comments"):
        h.append("# file of %s" % prog["name"])
    for sp in prog["includes"]:
        h.append('include "%s"' % sp)
    h.append("")
    return h


def item_lines(prog):
    out = []
    for n, it in enumerate(prog["body"]):
        ls = render_item(it)
        if prog.get("comments") and n % 2 == 0:
            ls[-1] = ls[-1] + "  # c%d" % n
        out.append(ls)
    return out


def render(prog):
    lines = header_lines(prog)
    for ls in item_lines(prog):
        lines += ls
    return "\n".join(lines) + "\n"


def tear_line(prog, after_item):
    """Line index (0-based count of lines kept) when tearing after `after_item` items."""
    n = len(header_lines(prog))
    for ls in item_lines(prog)[:after_item]:
        n += len(ls)
    return n


# ------------------------------------------------------------------ interpretation
def F(x):
    return Fraction(x).limit_denominator(1 << 40) if not isinstance(x, Fraction) else x


def affine_eval(e, env):
    """env: name -> affine value {"c": Fraction, "t": {param: Fraction}} . Returns same form."""
    c = F(e["c"])
    t = {}
    for coef, kind, name in e["t"]:
        coef = F(coef)
        if kind == "p":
            v = env.get(("p", name))
            if v is None:
                v = {"c": F(0), "t": {name: F(1)}}
        else:
            v = env.get(("v", name))
            if v is None:
                raise MustRaise("undefined name %s" % name)
        c += coef * v["c"]
        for p, k2 in v["t"].items():
            t[p] = t.get(p, F(0)) + coef * k2
    return {"c": c, "t": {p: k for p, k in t.items()}}


def subst(v, binding):
    """Substitute parameter bindings (param -> affine value) into affine value v."""
    c = v["c"]
    t = {}
    for p, k in v["t"].items():
        if p in binding:
            b = binding[p]
            c += k * b["c"]
            for p2, k2 in b["t"].items():
                t[p2] = t.get(p2, F(0)) + k * k2
        else:
            t[p] = t.get(p, F(0)) + k
    return {"c": c, "t": t}


def eval_mode(m, env):
    if "m" in m:
        return m["m"]
    v = env.get(("v", m["lv"]))
    if v is None:
        raise MustRaise("undefined loop var")
    if v["t"]:
        raise MustRaise("symbolic mode")
    val = v["c"] + m.get("plus", 0)
    if val.denominator != 1:
        raise MustRaise("non-int mode")
    return int(val)


class FS:
    """Abstract file-system state: root-relative physical path -> prog | ('text', str),
    plus symbolic links to directories (root-relative link path -> physical target dir)."""

    def __init__(self):
        self.files = {}
        self.links = {}

    def copy(self):
        f = FS()
        f.files = dict(self.files)
        f.links = dict(self.links)
        return f


def walk(fs, start_dir, spelling):
    """Resolve `spelling` from the physical directory `start_dir` the way the operating
    system does: component by component, following a symbolic link as soon as it is
    met, so that '..' applies to the directory the link points to."""
    cur = [c for c in start_dir.split("/") if c not in ("", ".")]
    for comp in spelling.split("/"):
        if comp in ("", "."):
            continue
        if comp == "..":
            if not cur:
                raise Unknown("escapes root")
            cur.pop()
            continue
        cand = "/".join(cur + [comp])
        if cand in fs.links:
            cur = [c for c in fs.links[cand].split("/") if c]
        else:
            cur = cur + [comp]
    return "/".join(cur)


def resolve(fs, including_dir, spelling):
    """The property's rule: relative to the (directory of the) including file, i.e. the
    file that was actually read; absolute paths as they are."""
    if spelling.startswith("<ROOT>/"):
        return walk(fs, "", spelling[len("<ROOT>/"):])
    if spelling.startswith("/"):
        raise Unknown("absolute path outside root")
    return walk(fs, including_dir, spelling)


def expand_file(fs, path, depth=0, stack=()):
    """Returns dict(name, params (ordered list), ops (list of op records with affine
    args), modes (sorted list)) for the program stored at path."""
    if depth > 8 or path in stack:
        raise Unknown("circular include")
    if path not in fs.files:
        raise MustRaise("missing file %s" % path)
    prog = fs.files[path]
    if not isinstance(prog, dict):
        raise Unknown("file %s is not a modelled program" % path)
    registry = {}
    d = posixpath.dirname(path)
    for sp in prog["includes"]:
        tgt = resolve(fs, d, sp)
        sub = expand_file(fs, tgt, depth + 1, stack + (path,))
        registry[sub["name"]] = sub
        # nested includes are visible too (the implementation propagates them upwards);
        # the generator never relies on that, but a callee's own includes must not clash
        for k, v in sub.get("registry", {}).items():
            registry.setdefault(k, v)
    env = {}
    ops = []
    params = []

    def note_params(e):
        for coef, kind, name in e["t"]:
            if kind == "p" and name not in params:
                params.append(name)

    def do_stmt(it):
        if it["k"] == "op":
            modes = [eval_mode(m, env) for m in it["modes"]]
            if it["args"] is None:
                ops.append({"op": it["op"], "args": None, "kwargs": None, "modes": modes})
            else:
                for e in it["args"]:
                    note_params(e)
                for _, e in it["kwargs"]:
                    note_params(e)
                ops.append({"op": it["op"], "args": [affine_eval(e, env) for e in it["args"]],
                            "kwargs": [[k, affine_eval(e, env)] for k, e in it["kwargs"]], "modes": modes})
        elif it["k"] == "call":
            modes = [eval_mode(m, env) for m in it["modes"]]
            callee = registry.get(it["prog"])
            if callee is None:
                # not an included program: an ordinary operation of that name
                if it["kwargs"] is None:
                    ops.append({"op": it["prog"], "args": None, "kwargs": None, "modes": modes})
                else:
                    for _, e in it["kwargs"]:
                        note_params(e)
                    ops.append({"op": it["prog"], "args": [], "kwargs": [[k, affine_eval(e, env)] for k, e in it["kwargs"]],
                                "modes": modes})
                return
            if len(modes) != len(callee["modes"]):
                raise MustRaise("arity")
            binding = {}
            if it["kwargs"] is None:
                if callee["params"]:
                    raise MustRaise("missing keyword arguments")
            else:
                if not callee["params"]:
                    raise MustRaise("does not accept arguments")
                if set(k for k, _ in it["kwargs"]) != set(callee["params"]):
                    raise MustRaise("wrong keyword arguments")
                for k, e in it["kwargs"]:
                    note_params(e)
                    binding[k] = affine_eval(e, env)
            mm = dict(zip(callee["modes"], modes))          # callee modes in increasing order
            for o in callee["ops"]:
                ops.append({"op": o["op"],
                            "args": None if o["args"] is None else [subst(a, binding) for a in o["args"]],
                            "kwargs": None if o["kwargs"] is None else [[k, subst(a, binding)] for k, a in o["kwargs"]],
                            "modes": [mm[x] for x in o["modes"]]})

    for it in prog["body"]:
        if it["k"] == "var":
            note_params(it["e"])
            v = affine_eval(it["e"], env)
            if it["type"] == "int" and not v["t"]:
                v = {"c": F(int(v["c"])), "t": {}}
            env[("v", it["name"])] = v
        elif it["k"] == "loop":
            for val in (range(*it["range"]) if it.get("range") else it["vals"]):
                env[("v", it["var"])] = {"c": F(val), "t": {}}
                for b in it["body"]:
                    do_stmt(b)
            env.pop(("v", it["var"]), None)
        else:
            do_stmt(it)
    modes = sorted(set(m for o in ops for m in o["modes"]))
    return {"name": prog["name"], "params": params, "ops": ops, "modes": modes, "registry": registry}


def expected(fs, main_path):
    """('ok', ops, modes) | ('raise', why) | ('unknown', why) for loading main_path."""
    try:
        ex = expand_file(fs, main_path)
    except MustRaise as e:
        return ("raise", str(e))
    except Unknown as e:
        return ("unknown", str(e))
    if ex["params"]:
        return ("unknown", "top-level program is a template")
    ops = []
    for o in ex["ops"]:
        ops.append({"op": o["op"],
                    "args": None if o["args"] is None else [float(a["c"]) for a in o["args"]],
                    "kwargs": None if o["kwargs"] is None else [[k, float(a["c"])] for k, a in o["kwargs"]],
                    "modes": o["modes"]})
    return ("ok", ops, ex["modes"])


def called_programs(fs, main_path):
    """Names of included programs actually called (transitively) when loading main."""
    seen = set()

    def walk(path):
        prog = fs.files.get(path)
        if not isinstance(prog, dict):
            return
        d = posixpath.dirname(path)
        reg = {}
        for sp in prog["includes"]:
            try:
                t = resolve(fs, d, sp)
            except Unknown:
                continue
            p2 = fs.files.get(t)
            if isinstance(p2, dict):
                reg[p2["name"]] = t

        def stmts(items):
            for it in items:
                if it["k"] == "call" and it["prog"] in reg:
                    if reg[it["prog"]] not in seen:
                        seen.add(reg[it["prog"]])
                        walk(reg[it["prog"]])
                elif it["k"] == "loop":
                    stmts(it["body"])
        stmts(prog["body"])
    walk(main_path)
    return seen
