"""Zygote: a process image that has imported blackbird but never executed any
hand-written blackbird function.  History and pristine processes are forks of it."""
import os
import sys
import warnings

PKG_PATH = os.environ.get("BBSIM_PKG_PATH", "/repo/blackbird_python")

_state = {"imported": False, "warm": False}


GENERATED = ("blackbirdLexer.py", "blackbirdParser.py", "blackbirdListener.py")


def pkg_dir():
    return os.path.join(PKG_PATH, "blackbird")


def hand_written_files():
    """Every Python source of the package that is not ANTLR output or a test: the files
    inside which interruptions may be injected (new modules of a refactoring included)."""
    out = []
    top = pkg_dir()
    for dirpath, dirnames, filenames in os.walk(top):
        dirnames[:] = sorted(d for d in dirnames if d not in ("tests", "__pycache__"))
        for fn in sorted(filenames):
            if fn.endswith(".py") and fn not in GENERATED and fn != "_version.py":
                out.append(os.path.join(dirpath, fn))
    return out


def import_blackbird():
    """Import the package under test from the working tree (never from site-packages)."""
    if _state["imported"]:
        return sys.modules["blackbird"]
    sys.dont_write_bytecode = True
    if sys.path[0] != PKG_PATH:
        sys.path.insert(0, PKG_PATH)
    warnings.simplefilter("ignore")
    import blackbird  # noqa
    import blackbird.utils  # noqa
    got = os.path.realpath(os.path.dirname(blackbird.__file__))
    want = os.path.realpath(pkg_dir())
    if got != want:
        raise RuntimeError("blackbird imported from %s, expected %s" % (got, want))
    _state["imported"] = True
    return blackbird


def module_state_snapshot():
    """Repr of every module-level mutable container of the hand-written modules
    (observation only; used to assert the zygote is untouched by the warm-up)."""
    snap = {}
    for modname in ("blackbird.auxiliary", "blackbird.listener", "blackbird.program",
                    "blackbird.utils", "blackbird.error", "blackbird"):
        mod = sys.modules.get(modname)
        if mod is None:
            continue
        for k, v in sorted(vars(mod).items()):
            if k.startswith("__"):
                continue
            if isinstance(v, (dict, list, set)):
                snap[modname + "." + k] = repr(v)[:500]
    return snap


def warm_up(corpus_dir):
    """Warm the ANTLR DFA caches and sympy's lazy imports WITHOUT running any
    hand-written blackbird code: bare generated lexer+parser over a fixed corpus."""
    if _state["warm"]:
        return
    import_blackbird()
    before = module_state_snapshot()
    import antlr4
    from antlr4.error.ErrorListener import ErrorListener
    from blackbird.blackbirdLexer import blackbirdLexer
    from blackbird.blackbirdParser import blackbirdParser

    class Quiet(ErrorListener):
        def syntaxError(self, *a, **k):
            pass

    names = sorted(os.listdir(corpus_dir)) if os.path.isdir(corpus_dir) else []
    for _ in range(2):
        for fn in names:
            if not fn.endswith(".xbb"):
                continue
            with open(os.path.join(corpus_dir, fn), "rb") as f:
                text = f.read().decode("ascii", "replace")
            lexer = blackbirdLexer(antlr4.InputStream(text))
            lexer.removeErrorListeners()
            lexer.addErrorListener(Quiet())
            stream = antlr4.CommonTokenStream(lexer)
            parser = blackbirdParser(stream)
            parser.removeErrorListeners()
            parser.addErrorListener(Quiet())
            try:
                parser.start()
            except Exception:
                pass
    import sympy as sym
    import numpy as np
    x, y = sym.symbols("zz_warm_a zz_warm_b")
    f = sym.lambdify([x, y], x * 2 + sym.sqrt(y) / 3)
    f(1.0, 2.0)
    str(x * 2 + y ** 2 - 1 / x)
    complex(sym.N((x + 1).xreplace({x: sym.Float(0.5)})))
    np.sum([1, 2.0], axis=0)
    import copy
    copy.deepcopy({"a": [x, np.zeros((1, 2))]})
    import networkx as nx
    from networkx.algorithms import isomorphism  # noqa
    nx.DiGraph().add_edge(0, 1)
    after = module_state_snapshot()
    if before != after:
        raise RuntimeError("zygote warm-up touched blackbird module state: %r" %
                           [k for k in after if before.get(k) != after[k]])
    # everything allocated so far is permanent: a child's collector only ever looks at what
    # the child itself allocates (cheaper collections in every fork)
    import gc
    gc.collect()
    gc.freeze()
    _state["warm"] = True


def carry_over():
    """Observation-only probe: which keys are present in blackbird's module tables."""
    aux = sys.modules.get("blackbird.auxiliary")
    if aux is None:
        return None
    out = []
    found = False
    for tab in ("_VAR", "_PARAMS"):
        t = getattr(aux, tab, None)
        if t is None:
            continue
        found = True
        try:
            for k in (t.keys() if isinstance(t, dict) else t):
                out.append("%s:%s" % (tab, k))
        except Exception:
            pass
    return sorted(out) if found else None
