"""Canonical, JSON-able rendering of blackbird values, programs and outcomes.

The rendering is type-tagged: any difference between two renderings is a real difference
in content (values, container kinds, key order of keyword/option dictionaries, numpy
dtypes of arrays).  Scalars are rendered by value class: every integer (int, np.int64, ...)
as int, every float as float, every complex as complex, every string as str - the
properties do not distinguish numpy scalars from Python scalars.  The four top-level keys
of an operation dict are rendered in sorted order (their presence matters, their insertion
order does not).  It is used as the compared observable by every check.
It never draws random numbers and never reads a clock.
"""
import hashlib
import json
import re
import zlib

_ADDR = re.compile(r"0x[0-9a-fA-F]{6,}")


def sample_value(name):
    """Fixed, name-keyed sample point in [0.5, 1.5) (independent of hash seed)."""
    return 0.5 + (zlib.crc32(str(name).encode()) % 100003) / 100003.0


def _fl(x):
    try:
        return float(x).hex()
    except Exception:  # pragma: no cover
        return repr(x)


def _num(x, loose):
    """Render a python/numpy number."""
    if loose:
        try:
            c = complex(x)
            return ["num", "%.10g" % c.real, "%.10g" % c.imag]
        except Exception:
            return ["num?", repr(x)]
    return None


def render(v, root=None, loose=False, depth=0):
    """Render value v into nested lists/strings.

    loose=True drops the exact float bits and numeric type names (used across
    interpreters, where only mathematically meaningful content is compared)."""
    import numpy as np
    import sympy as sym

    if depth > 12:
        return ["deep"]
    if v is None:
        return ["none"]
    if isinstance(v, bool):
        return ["bool", repr(v)]
    if isinstance(v, (np.bool_,)):
        return ["bool", repr(bool(v))]
    if isinstance(v, int):
        return ["int", repr(v)]
    if isinstance(v, float):
        return ["float", "%.12g" % v if loose else _fl(v)]
    if isinstance(v, complex):
        if loose:
            return ["complex", "%.12g" % v.real, "%.12g" % v.imag]
        return ["complex", _fl(v.real), _fl(v.imag)]
    if isinstance(v, str):
        s = v
        if root:
            s = s.replace(root, "<ROOT>").replace(root.lstrip("/"), "<ROOT>")
        return ["str", s]
    if isinstance(v, np.ndarray):
        return ["nd", str(v.dtype), list(v.shape),
                [render(x, root, loose, depth + 1) for x in v.flatten().tolist()]
                if v.dtype != object else
                [render(x, root, loose, depth + 1) for x in v.flatten()]]
    if isinstance(v, np.generic):
        return render(v.item(), root, loose, depth + 1)
    if isinstance(v, sym.Basic):
        names = sorted(str(s) for s in v.free_symbols)
        try:
            pt = {s: sym.Float(sample_value(str(s))) for s in v.free_symbols}
            val = complex(sym.N(v.xreplace(pt)))
            valr = ["%.10g" % val.real, "%.10g" % val.imag]
        except Exception as e:  # not evaluable: still deterministic content
            valr = ["uneval", type(e).__name__]
        return ["sym", str(v), names, valr]
    if type(v).__name__ == "RegRefTransform":
        return render_rrt(v, root, loose, depth)
    if isinstance(v, (list, tuple)):
        return ["list" if isinstance(v, list) else "tuple",
                [render(x, root, loose, depth + 1) for x in v]]
    if isinstance(v, dict):
        return ["dict", [[render(k, root, loose, depth + 1), render(x, root, loose, depth + 1)]
                         for k, x in v.items()]]
    if isinstance(v, (set, frozenset)):
        items = [render(x, root, loose, depth + 1) for x in v]
        items.sort(key=lambda r: json.dumps(r, sort_keys=True))
        return ["set", items]
    if isinstance(v, range):
        return ["range", repr(v)]
    return ["obj", type(v).__name__, _ADDR.sub("0x?", repr(v))[:200]]


def rrt_pairing(t):
    """Pairing invariant of a register transform (C19 D2 / C08 facet).

    Returns (ok, detail).  func applied to the register values in the listed order
    must equal expr evaluated by substitution at the same register-keyed point, and
    the listed registers must be exactly the registers in expr, each once."""
    import sympy as sym
    regs = list(t.regrefs)
    syms = {s: int(str(s)[1:]) for s in t.expr.free_symbols}
    if not set(syms.values()) <= set(regs):
        return False, "registers %r of the expression are not all listed in regrefs %r" % (sorted(syms.values()), regs)
    v = {r: sample_value("q%d" % r) for r in regs}
    try:
        got = complex(t.func(*[v[r] for r in regs]))
    except Exception as e:
        return False, "func raised %s" % type(e).__name__
    try:
        want = complex(sym.N(t.expr.xreplace({s: sym.Float(v[r]) for s, r in syms.items()})))
    except Exception as e:
        return True, "expr not evaluable (%s)" % type(e).__name__
    if abs(got - want) > 1e-9 * (1 + abs(want)):
        return False, "func(listed order)=%r but expr=%r" % (got, want)
    return True, ""


def render_rrt(t, root=None, loose=False, depth=0):
    try:
        regs = list(t.regrefs)
        v = {r: sample_value("q%d" % r) for r in regs}
        try:
            val = complex(t.func(*[v[r] for r in regs]))
            valr = ["%.10g" % val.real, "%.10g" % val.imag]
        except Exception as e:
            valr = ["uneval", type(e).__name__]
        return ["rrt", str(t.func_str), sorted(regs), valr]
    except Exception as e:
        return ["rrt?", type(e).__name__]


def render_op(op, root=None, loose=False):
    """One operation dict, keys in insertion order (presence of args/kwargs matters)."""
    if not isinstance(op, dict):
        return ["notdict", render(op, root, loose)]
    return ["op", [[str(k), render(op[k], root, loose, 1)] for k in sorted(op, key=str)]]


def render_program(p, root=None, loose=False):
    out = []
    def get(label, f):
        try:
            out.append([label, f()])
        except Exception as e:
            out.append([label, ["raises", type(e).__name__]])
    get("name", lambda: render(p.name, root, loose))
    get("version", lambda: render(p.version, root, loose))
    get("target", lambda: render(p.target, root, loose))
    get("type", lambda: render(p.programtype, root, loose))
    get("ops", lambda: [render_op(o, root, loose) for o in p.operations])
    get("vars", lambda: render(p.variables, root, loose))
    get("params", lambda: sorted(str(x) for x in p.parameters))
    get("modes", lambda: render(set(p.modes), root, loose))
    get("len", lambda: len(p))
    get("is_template", lambda: bool(p.is_template()))
    return ["program", out]


def normalise_message(msg, root=None):
    s = str(msg)
    if root:
        s = s.replace(root, "<ROOT>").replace(root.lstrip("/"), "<ROOT>")
    return _ADDR.sub("0x?", s)


def render_exception(e, root=None, with_message=True):
    if with_message:
        return ["exc", type(e).__name__, normalise_message(e, root)]
    return ["exc", type(e).__name__]


def sha(obj):
    return hashlib.sha256(json.dumps(obj, sort_keys=False, separators=(",", ":")).encode()).hexdigest()[:16]
