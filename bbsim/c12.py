"""C12 — each load is independent of every earlier load in the process.

History process H (one fork of the zygote runs the whole plan) versus one pristine
fork P per compared load.  See DESIGN.md §4.2."""
import copy
import posixpath

from . import gen as G
from . import child, digest as D
from .procs import fork_run

PROP = "C12"
USES_COLD = True
IO_KINDS = ["ENOENT", "EACCES", "EIO", "EMFILE", "EISDIR", "tear_line", "tear_byte", "flip", "short", "short"]
API_OPS = ["dumps", "call", "digraph", "attrs", "iter", "deepcopy", "match"]
MUTS = ["regref_edit", "op_append", "op_del", "op_replace", "op_rename", "arg_set", "arg_append", "kwarg_set",
        "modes_edit", "var_array_write", "var_set", "option_add", "type_option_add", "modes_add",
        "array_arg_write", "list_kwarg_append"]

SENTINEL = {"head": ["name Sentinel", "version 1.0", "target gaussian (shots=10)"],
            "items": [["float alpha = 0.5"], ["Coherent(alpha, sqrt(pi)) | 0"],
                      ["for int i in 0:2", "    Sgate(i*0.5, {sq}) | i"], ["MeasureX | 0"],
                      ["Xgate(sqrt(2)*q0) | 1"]], "defs": []}


def runs_for(tier):
    return 1200 if tier == "quick" else 24000


def _io_fault(rng, paths, nlines_hint=12):
    """A read fault on ONE named file, applied to every open of it during the load
    (addressing by ordinal would presume that history and pristine process open the same
    files in the same order - a correct stat-validated cache breaks that)."""
    k = rng.choice(IO_KINDS)
    d = {"kind": "io", "path": rng.choice(paths), "every": True}
    if k in ("tear_line", "tear_byte", "flip", "short"):
        d["what"] = {"flip": "flip", "short": "short"}.get(k, "tear")
        d["line"] = rng.randint(0, nlines_hint)
        d["col"] = 0 if k == "tear_line" else rng.randint(0, 30)
    else:
        d["what"] = k
    return d


def gen_plan(rng):
    cfg = G.swarm(rng)
    cfg["io_rate"] = rng.choice([0.0, 0.0, 0.15, 0.3])
    cfg["intr_rate"] = rng.choice([0.0, 0.0, 0.15, 0.35])
    cfg["env_rate"] = rng.choice([0.0, 0.1, 0.3])
    cfg["api_rate"] = rng.choice([0.0, 0.2, 0.5])
    cfg["nloads"] = rng.choice([2, 2, 3, 3, 4, 5, 6, 8, 12])
    # the caller keeps failed loads' exceptions in garbage cycles; automatic collection is then
    # off and the collector runs at one seeded line event of a later load ("gc" fault)
    cfg["hold_exc"] = rng.choice([0.0, 0.0, 0.5, 1.0])
    cfg["non_ascii"] = rng.random() < 0.3                     # bytes >= 0x80 in included files
    steps = []
    feats = cfg["features"]
    libs = []   # {"name","path","modes","params"}
    libdirs = ["lib", "lib/deep", "", "other"]

    nonascii_writes = [0]

    def write_lib(j, broken=False):
        name = ["Sub", "Inner", "Lib"][j]
        if j < len(libs):
            path = libs[j]["path"]
        else:
            d = rng.choice(libdirs)
            path = posixpath.join(d, name.lower() + ".xbb")
        nested = None
        if j > 0 and rng.random() < 0.7:
            n0 = libs[0]
            nested = dict(n0)
            nested["inc"] = rng.choice([posixpath.relpath(n0["path"], posixpath.dirname(path) or "."),
                                        "<ROOT>/" + n0["path"]])
        text, info = G.gen_lib(rng, cfg, name, nested=nested)
        if cfg.get("non_ascii") and rng.random() < 0.6:
            # written byte for byte (latin-1): either a lone 0xE9 (not valid UTF-8) in a comment
            # or the two bytes of a UTF-8 'e acute' inside a string argument
            lines = text.rstrip("\n").split("\n")
            nonascii_writes[0] += 1
            if nonascii_writes[0] % 2 == 1:
                lines.insert(rng.randint(3, len(lines)), "# caf\u00e9")
            else:
                lines.append('Annotate("d\u00c3\u00a9tection") | %d' % info["mode_list"][0])
            text = "\n".join(lines) + "\n"
        if broken:
            lines = text.rstrip("\n").split("\n")
            lines.append(rng.choice(["Sgate(undefd) | 0", "Vac | 0.5", "Sgate(1, | 0", "int q1 = 1",
                                     "float lv = 1.0\nSgate(lv, nope) | 0"]))
            text = "\n".join(lines) + "\n"
        info["path"] = path
        if j < len(libs):
            libs[j] = info
        else:
            libs.append(info)
        steps.append({"op": "write", "path": path, "text": text})

    if "includes" in feats:
        for j in range(2 if rng.random() < 0.65 else 1):
            write_lib(j)

    earlier = []           # (script, delivery, maindir, libs) of earlier valid loads
    same_main = rng.random() < 0.4
    defined = []           # names defined by earlier scripts (for echo probes)
    recent = []            # names defined by the most recent failed/faulted script
    prev_bad = False
    loads_done = []
    cwd = ""

    def libs_for(delivery, maindir):
        out = []
        for l in libs:
            e = dict(l)
            if delivery == "loads" or rng.random() < 0.3:
                e["inc"] = "<ROOT>/" + l["path"]
            else:
                e["inc"] = posixpath.relpath(l["path"], maindir or ".")
                if rng.random() < 0.2:
                    e["inc"] = "./" + e["inc"]
            out.append(e)
        return out

    for j in range(cfg["nloads"]):
        # environment changes between loads
        if rng.random() < cfg["env_rate"]:
            k = rng.random()
            if k < 0.4 and libs:
                # the first library is the one other libraries nest: rewriting it while its
                # includer stays byte-identical is the interesting case
                which = 0 if (len(libs) > 1 and rng.random() < 0.7) else rng.randrange(len(libs))
                write_lib(which, broken=rng.random() < 0.4)
            elif k < 0.55 and libs:
                steps.append({"op": "unlink", "path": rng.choice(libs)["path"]})
            else:
                cwd = rng.choice(["", "app", "lib", "other", "/"])
                steps.append({"op": "chdir", "path": cwd})
        delivery = rng.choice(["loads", "loads", "load_abs", "load_rel"])
        maindir = rng.choice(["app", "", "app/sub"])
        use_libs = libs_for(delivery, maindir) if libs and rng.random() < 0.7 else []
        if len(use_libs) > 1 and rng.random() < 0.5:
            use_libs = [rng.choice(use_libs)]       # not every load includes every library
        planted = None
        if prev_bad and rng.random() < 0.6:
            lib = rng.choice(use_libs) if use_libs else None
            script = G.echo_probe(rng, recent or defined, cfg["pool"], lib)
            kind = "echo"
        elif earlier and rng.random() < 0.15:
            # the very same text (and, for load, the same file name) as an earlier load:
            # a result cached per text or per path would be handed out a second time
            script, delivery, maindir, use_libs = copy.deepcopy(rng.choice(earlier))
            kind = "repeat"
        else:
            sg = G.ScriptGen(rng, cfg, libs=use_libs)
            script = sg.build()
            kind = "normal"
            if rng.random() < cfg["fail_rate"]:
                planted = rng.choice(cfg["fail_kinds"])
                if planted == "inc_missing":
                    script["head"].append('include "%s"' % rng.choice(["<ROOT>/lib/none.xbb", "missing.xbb"]))
                elif planted == "inc_call" and use_libs:
                    script["items"].append([sg.lib_call(wrong=rng.choice(["arity", "kw"]))])
                elif planted == "inc_inner" and libs:
                    write_lib(rng.randrange(len(libs)), broken=True)
                    if not use_libs:
                        use_libs = libs_for(delivery, maindir)
                        for l in use_libs:
                            script["head"].append('include "%s"' % l["inc"])
                elif planted in ("inc_call", "inc_inner"):
                    planted = "undefined"
                    script = G.plant_failure(rng, script, planted, cfg["pool"])
                else:
                    script = G.plant_failure(rng, script, planted, cfg["pool"])
        if kind == "normal" and not planted:
            earlier.append((script, delivery, maindir, use_libs))
        st = {"out": "o%d" % j, "script": {"head": script["head"], "items": script["items"]},
              "kind": kind}
        if planted:
            st["planted"] = planted
        if script.get("probe"):
            st["probe"] = script["probe"]
        if delivery == "loads":
            st["op"] = "loads"
        else:
            # sometimes every load of the history reads the same (rewritten) file name
            path = posixpath.join(maindir, "main.xbb" if same_main else "main%d.xbb" % j)
            steps.append({"op": "write", "path": path, "script": st.pop("script")})
            st["op"] = "load"
            st["path"] = path
            st["style"] = "abs" if delivery == "load_abs" else "rel"
            if st["style"] == "rel" and rng.random() < 0.3:
                st["dot"] = True
        # faults
        faulted = False
        fpaths = [l["path"] for l in use_libs] + ([st["path"]] * 2 if delivery != "loads" else [])
        if fpaths and rng.random() < cfg["io_rate"]:
            st["fault"] = _io_fault(rng, fpaths)
            faulted = True
        elif rng.random() < cfg["intr_rate"]:
            st["fault"] = {"kind": "intr", "exc": rng.choice(["MemoryError", "KeyboardInterrupt"]),
                           "frac": rng.random()}
            faulted = True
        if rng.random() < cfg["hold_exc"]:
            st["hold_exc"] = True
        if cfg["hold_exc"] and prev_bad and "fault" not in st and rng.random() < 0.7:
            st["fault"] = {"kind": "gc", "frac": rng.random()}
        steps.append(st)
        loads_done.append(st["out"])
        for n in script.get("defs", []):
            if n not in defined:
                defined.append(n)
        prev_bad = bool(planted or faulted)
        if prev_bad:
            recent = list(script.get("defs", [])) or recent
        # API use / mutation of earlier results
        while rng.random() < cfg["api_rate"]:
            tgt = rng.choice(loads_done)
            if rng.random() < 0.5:
                steps.append({"op": "mutate", "obj": tgt,
                              "how": {"kind": rng.choice(MUTS), "n": rng.randrange(4),
                                      "v": rng.choice([0.125, 3, 7.5])}})
            else:
                op = rng.choice(API_OPS)
                a = {"op": op, "obj": tgt}
                if op == "call":
                    a["kwargs"] = {p: rng.choice([0.5, 2, 1.25]) for p in cfg["pool"]}
                    a["out"] = "i%d" % len(steps)
                    loads_done.append(a["out"])
                elif op == "match":
                    a = {"op": "match", "t": tgt, "p": rng.choice(loads_done)}
                elif op == "digraph":
                    a["out"] = "g%d" % len(steps)
                steps.append(a)
    # recovery sentinels (I4): fault-free echo probe over all names + fixed valid script
    probe = G.echo_probe(rng, defined, cfg["pool"])
    steps.append({"op": "loads", "out": "s0", "script": {"head": probe["head"], "items": probe["items"]},
                  "kind": "sentinel-echo", "probe": probe["probe"]})
    steps.append({"op": "loads", "out": "s1", "script": {"head": list(SENTINEL["head"]),
                                                         "items": [list(i) for i in SENTINEL["items"]]},
                  "kind": "sentinel-fixed"})
    # sentinels of a history with held exceptions: the collector runs inside the first one
    if cfg["hold_exc"]:
        steps[-2]["fault"] = {"kind": "gc", "frac": rng.random()}
    return {"prop": PROP, "steps": steps, "cfg": cfg, "gc_off": bool(cfg["hold_exc"])}


def prepare(plan, ctx):
    """Resolve interruption / collection instants: dry run of the history with counting tracers."""
    need = [i for i, s in enumerate(plan["steps"])
            if s.get("fault", {}).get("kind") in ("intr", "gc") and "at" not in s["fault"]]
    if not need:
        return plan
    import copy
    dry = copy.deepcopy(plan["steps"])
    for i in need:
        dry[i]["fault"] = {"kind": "count" if plan["steps"][i]["fault"]["kind"] == "intr" else "count_all"}
    evs = fork_run(child.run_plan, dry, ctx["root"], ctx["scratch"], observe="none", gc_off=plan.get("gc_off"))
    by_i = {e["i"]: e for e in evs}
    for i in need:
        n = by_i.get(i, {}).get("lines") or 1
        f = plan["steps"][i]["fault"]
        f["at"] = 1 + int(f.pop("frac", 0.5) * n)
        f["n_dry"] = n
    return plan


def _cmp_keys(ev):
    return {"ok": ev.get("ok"), "res": ev.get("res"), "dumps": ev.get("dumps")}


def run(plan, ctx):
    """Execute H and the P's; evaluate I1-I4.  Returns result dict."""
    steps = plan["steps"]
    stats = {}

    def bump(k, n=1):
        stats[k] = stats.get(k, 0) + n

    H = fork_run(child.run_plan, steps, ctx["root"], ctx["scratch"], mode="history", gc_off=plan.get("gc_off"))
    viol = []
    log = [["H", D.sha(H)]]
    prev_objs = {}
    family = {}
    had_bad = False
    compared_after_bad = 0
    carry_sets = []
    intr_sites = set()
    for ev in H:
        i = ev["i"]
        st = steps[i]
        op = st["op"]
        if op in child.ENV_OPS:
            bump("env_steps")
            continue
        # I3: programs returned by different loads share no mutable state.  Objects
        # derived from one load result (instances, graphs, match dicts, copies) form a
        # family with it; whether they are independent of EACH OTHER is C13's question,
        # not C12's, so only objects outside the operated-on families must be unchanged.
        objs = ev.get("objs", {})
        if st.get("out"):
            srcs = [x for x in (st.get("obj"), st.get("t"), st.get("p")) if x]
            family[st["out"]] = set().union(*[family.get(x, {x}) for x in srcs]) | {st["out"]} \
                if srcs else {st["out"]}
        touched = set()
        for x in (st.get("obj"), st.get("t"), st.get("p"), st.get("out")):
            if x:
                touched |= family.get(x, {x})
        roots_touched = set()
        for oid in list(touched):
            roots_touched |= family.get(oid, {oid})
        for oid, h in prev_objs.items():
            if family.get(oid, {oid}) & roots_touched:
                continue
            if objs.get(oid) != h:
                viol.append({"inv": "I3", "step": i,
                             "detail": "object %s changed by step %d (%s) that operates on %s" %
                                       (oid, i, op, sorted(touched) or "no earlier object")})
        prev_objs = objs
        if op not in child.LOAD_OPS:
            bump("api_steps")
            bump("api:" + op)
            continue
        bump("loads")
        fault = st.get("fault") or {}
        fk = fault.get("kind")
        if fk:
            bump("fault_configured:" + (fk if fk != "io" else "io:" + fault["what"]))
            on_include = fk == "io" and (op == "loads" or fault.get("path") != st.get("path"))
            if on_include:
                bump("fault_configured:io_on_an_included_file")
            if ev.get("fired"):
                bump("fault_fired:" + (fk if fk != "io" else "io:" + fault["what"]))
                if on_include:
                    bump("fault_fired:io_on_an_included_file")
        if st.get("planted"):
            bump("planted:" + st["planted"])
            if not ev.get("ok"):
                bump("planted_failed:" + st["planted"])
        carry = ev.get("carry")
        if carry is None:
            bump("carry_probe_unavailable")
        elif carry:
            bump("loads_with_carry_over")
            carry_sets.append(",".join(carry))
            text = child.step_text(st) if ("text" in st or "script" in st) else ""
            if not text:
                for s2 in steps[:i]:
                    if s2["op"] == "write" and s2["path"] == st.get("path"):
                        text = child.step_text(s2)
            names = [c.split(":", 1)[1] for c in carry]
            if any(n and n in text for n in names):
                bump("loads_with_carry_over_mentioned")
        if not ev.get("ok"):
            bump("loads_failed")
            bump("fail:" + ev["res"][1])
        if fk == "gc" and ev.get("fired"):
            bump("collector_ran_inside_a_load")
        if fk == "intr":
            bump("interrupted_loads")
            if ev.get("fired"):
                had_bad = True
                bump("intr_where:" + str(ev.get("where", "?")).split(":")[0])
                intr_sites.add(str(ev.get("where")))
            continue    # I2: nothing compared on an interrupted step
        prun = ctx.get("pristine_run") or fork_run
        if plan.get("cold") and ctx.get("cold") is not None:
            prun = ctx["cold"].run
        bump("pristine_cold" if prun is not fork_run else "pristine_warm")
        P = prun(child.run_plan, steps, ctx["root"], ctx["scratch"], mode="pristine", only=i,
                 gc_off=plan.get("gc_off"))
        pev = P[-1]
        log.append(["P", i, D.sha(pev)])
        bump("compared_loads")
        if had_bad:
            compared_after_bad += 1
        if st.get("probe"):
            for sl in st["probe"]:
                bump("probe_slot:" + sl)
        a, b = _cmp_keys(ev), _cmp_keys(pev)
        if fk == "io" and fault.get("what") not in ("tear", "flip") and \
                bool(ev.get("fired")) != bool(pev.get("fired")):
            # the fault reached only one of the two processes (e.g. the history process did not
            # read the file again because a correct, validated cache served it): the two
            # executions did not meet the same environment, so there is nothing to compare
            bump("fault_reached_only_one_process")
        elif a != b:
            inv = "I4" if str(st.get("kind", "")).startswith("sentinel") else ("I2" if fk == "io" else "I1")
            viol.append({"inv": inv, "step": i,
                         "detail": "history outcome %s != pristine outcome %s" % (_short(ev), _short(pev)),
                         "history": _short(ev, 2000), "pristine": _short(pev, 2000),
                         "carry": carry})
        if not ev.get("ok") or (fk and ev.get("fired")):
            had_bad = True
    stats["distinct_carry"] = sorted(set(carry_sets))
    stats["interruption_sites"] = sorted(intr_sites)
    return {"violations": viol, "stats": stats, "log": D.sha(log),
            "nontrivial": bool(compared_after_bad)}


def _short(ev, n=300):
    if not ev.get("ok"):
        r = ev.get("res")
        return ("raises %s: %s" % (r[1], r[2] if len(r) > 2 else ""))[:n]
    d = ev.get("dumps")
    if d and d[0] == "text":
        return ("program %s dumps=%r" % (D.sha(ev.get("res")), d[1]))[:n]
    return ("program %s dumps=%r" % (D.sha(ev.get("res")), d))[:n]


def effectiveness(total, tier):
    if total.get("loads", 0) < 2000:
        return None
    problems = []
    for k, v in total.items():
        if k.startswith("fault_configured:") and v >= 30 and not total.get("fault_fired:" + k.split(":", 1)[1]):
            problems.append("fault kind %s was configured %d times and never fired" % (k.split(":", 1)[1], v))
    if not total.get("compared_loads"):
        problems.append("no load was compared with a pristine process")
    io_faulted = sum(v for k, v in total.items() if k.startswith("fault_configured:io:"))
    if io_faulted >= 50 and total.get("fault_reached_only_one_process", 0) > 0.5 * io_faulted:
        problems.append("%d of %d faulted loads were not compared because the fault reached only one process" %
                        (total["fault_reached_only_one_process"], io_faulted))
    if total.get("loads_failed", 0) in (0, total.get("loads", 0)):
        problems.append("loads either all failed or all succeeded")
    if not any(k.startswith("planted_failed:") for k in total):
        problems.append("no planted failure failed")
    return "; ".join(problems) or None


def describe():
    return {
        "rule": "plans are drawn by a seeded PRNG (swarm configuration, scripts, history of 2-12 "
                "load/loads calls with planted failures, file-read faults, interruptions, exceptions "
                "kept in garbage cycles with the collector run at a seeded line of a later load, "
                "environment changes, expression chains around the recursion boundary, typed-equal function arguments, API calls and mutations, then two sentinel loads); a history is distinct "
                "by the digest of its plan and non-trivial when it contains at least one failed or "
                "faulted load followed by at least one compared fault-free load",
        "components": {"real": ["blackbird (working tree)", "antlr4 runtime", "sympy", "numpy",
                                "kernel file system (tmpfs)", "os.chdir/open", "fork()ed processes"],
                       "stubs": [], "interposers": ["builtins.open wrapper (errno and short-read faults only)",
                                                     "rewrite + restore of simulated files around a load (torn / flipped content)",
                                                     "sys.settrace line tracer (interruptions and seeded collector runs only)"]},
    }
