"""C07 — calling an included program equals inlining it with renamed modes.

System under simulation: blackbird.load / loads on a REAL directory tree, with the
process working directory, the way files are named and file-read faults as the
environment.  Oracle: bbsim.model07 (independent executable model).  DESIGN.md §4.1."""
import copy
import posixpath

from . import child, digest as D, model07 as M
from .procs import fork_run

PROP = "C07"
DIRS = ["", "app", "app/sub", "lib", "lib/deep", "other", "x/y"]
BASENAMES = ["sub.xbb", "inner.xbb", "lib.xbb", "prim.xbb"]
PARAMS = ["t", "u", "a", "b", "phi", "r"]
OPS = ["Sgate", "Dgate", "Rgate", "Xgate", "Zgate", "Pgate", "Kgate"]
OPS2 = ["BSgate", "S2gate", "CXgate", "CZgate"]
OPS0 = ["Vac", "Fourier", "MeasureX", "MeasureP"]
CONSTS = [0.5, 0.25, 2, 3, 1.5, -0.75, 1, -2, 0.125, 4]
MODE_SETS = [[8, 1], [12, 3, 7], [9, 8], [16, 1, 9], [5, 2], [3], [0, 1], [24, 8, 16, 1], [11, 4],
             [2, 10, 6], [1], [33, 1, 17], [7, 0], [15, 14, 13]]
KW = ["a", "phi", "r", "k"]


def runs_for(tier):
    return 2500 if tier == "quick" else 40000


def const(rng):
    return rng.choice(CONSTS)


def expr(rng, params, vars_, loopvar=None):
    k = rng.random()
    e = {"c": const(rng) if rng.random() < 0.6 else 0, "t": []}
    if params and k < 0.6:
        for p in rng.sample(params, 1 if rng.random() < 0.8 else min(2, len(params))):
            e["t"].append([rng.choice([1, 2, -1, 0.5, 3, -0.25]), "p", p])
    elif vars_ and k < 0.75:
        e["t"].append([rng.choice([1, 2, 0.5]), "v", rng.choice(vars_)])
    elif loopvar and k < 0.9:
        e["t"].append([rng.choice([1, 0.5, 2]), "v", loopvar])
    if not e["t"] and e["c"] == 0:
        e["c"] = const(rng)
    return e


def gen_op(rng, modes_pool, params, vars_, loopvar=None):
    r = rng.random()
    st = rng.randrange(3)
    if loopvar and rng.random() < 0.7:
        ms = [{"lv": loopvar, "plus": 0}]
        if rng.random() < 0.3:
            ms.append({"lv": loopvar, "plus": 1})
    else:
        k = 2 if (r < 0.25 and len(modes_pool) >= 2) else 1
        ms = [{"m": m} for m in rng.sample(modes_pool, k)]
    if r > 0.85:
        return {"k": "op", "op": rng.choice(OPS0), "args": None, "kwargs": [], "modes": ms, "style": st}
    name = rng.choice(OPS2 if len(ms) == 2 else OPS)
    args = [expr(rng, params, vars_, loopvar) for _ in range(rng.choice([0, 1, 1, 2]))]
    kwargs = []
    for key in rng.sample(KW, rng.choice([0, 0, 1, 2])):
        kwargs.append([key, expr(rng, params, vars_, loopvar)])
    return {"k": "op", "op": name, "args": args, "kwargs": kwargs, "modes": ms, "style": st}


def gen_call(rng, callee, params, vars_, wrong=None, modes_from=None, loopvar=None):
    n = len(callee["modes"])
    if wrong == "arity":
        n = max(1, n + rng.choice([-1, 1]))
        if n == len(callee["modes"]):
            n += 1
    pool = modes_from or list(range(0, 14))
    if loopvar and len(callee["modes"]) <= 2 and wrong is None:
        ms = [{"lv": loopvar, "plus": j} for j in range(n)]
    elif wrong is None and rng.random() < 0.25:
        # the subroutine applied to its own modes: identity, reversed, in the order a set
        # of them iterates, or any other permutation (every renaming is then a permutation)
        own = list(callee["modes"])
        k = rng.random()
        if k < 0.25:
            pass
        elif k < 0.5:
            own.reverse()
        elif k < 0.75:
            own = list(set(own))
        else:
            rng.shuffle(own)
        ms = [{"m": m} for m in own]
    else:
        ms = [{"m": m} for m in rng.sample(pool, min(n, len(pool)))]
        while len(ms) < n:
            ms.append({"m": 20 + len(ms)})
    kws = None
    ps = list(callee["params"])
    if wrong == "kw":
        if ps and rng.random() < 0.5:
            ps = ps[:-1]
        else:
            ps = ps + ["zz"]
    if ps:
        rng.shuffle(ps)
        kws = [[p, expr(rng, params, vars_, loopvar)] for p in ps]
    return {"k": "call", "prog": callee["name"], "kwargs": kws, "modes": ms, "style": rng.choice([1, 2])}


def spell(rng, from_dir, target, allow_abs=True, fs=None):
    k = rng.random()
    rel = posixpath.relpath(target, from_dir or ".")
    if fs is not None and fs.links and rng.random() < 0.25 and link_safe(fs, target):
        # a spelling that goes DOWN through a symbolic link to a directory.  '..' is never
        # written after the link component, and the file reached this way (and everything
        # it includes) has no '..' in its own include lines: how '..' behaves once a link
        # has been crossed is a question of path syntax that the statement of C07 does not
        # settle (the OS applies it to the link's target, textual normalisation to the link's
        # parent), so only spellings on which both readings agree are generated.
        for lp, tdir in sorted(fs.links.items()):
            rel_link = posixpath.relpath(lp, from_dir or ".")
            if target.startswith(tdir + "/"):
                cand = rel_link + "/" + posixpath.relpath(target, tdir)
                try:
                    if M.walk(fs, from_dir, cand) == target:
                        return cand
                except M.Unknown:
                    pass
    if allow_abs and k < 0.2:
        return "<ROOT>/" + target
    if k < 0.35:
        return "./" + rel
    if k < 0.45 and posixpath.dirname(target):
        # non-normalised but equivalent spelling: down into the directory and back
        d = posixpath.dirname(target).split("/")[0]
        back = posixpath.relpath(".", from_dir or ".")
        return posixpath.join(back, d, "..", target) if back != "." else posixpath.join(d, "..", target)
    return rel


def link_safe(fs, path, seen=()):
    """True if neither this file nor anything it includes (transitively) has a relative
    include line containing '..' (see spell())."""
    prog = fs.files.get(path)
    if not isinstance(prog, dict) or path in seen:
        return False
    for sp in prog["includes"]:
        if not sp.startswith("<ROOT>/") and ".." in sp.split("/"):
            return False
        try:
            t = M.resolve(fs, posixpath.dirname(path), sp)
        except M.Unknown:
            return False
        if not link_safe(fs, t, seen + (path,)):
            return False
    return True


def gen_body(rng, fs, own_params, callees, modes_pool, top=False):
    body = []
    vars_ = []
    for _ in range(rng.choice([0, 0, 1, 2])):
        n = "v%d" % len(vars_)
        if rng.random() < 0.3:
            # a variable named like a template parameter of some (other) program
            cand = [q for q in PARAMS if q not in own_params and q not in vars_]
            if cand:
                n = rng.choice(cand)
        body.append({"k": "var", "name": n, "type": "float", "e": expr(rng, own_params, vars_)})
        vars_.append(n)
    ivars = []
    if rng.random() < (0.4 if top else 0.25):
        # integer variables used as call-site modes (in libraries too)
        for j in range(rng.randint(1, 2)):
            body.append({"k": "var", "name": "n%d" % j, "type": "int", "e": {"c": rng.randrange(0, 12), "t": []}})
            ivars.append("n%d" % j)
    stmts = []
    for _ in range(rng.randint(1, 5)):
        stmts.append(gen_op(rng, modes_pool, own_params, vars_))
    for c in callees:
        if not top and not c["params"] and rng.random() < 0.3:
            # a library applying a parameter-free subroutine to its own modes, twice
            for _ in range(2):
                stmts.append({"k": "call", "prog": c["name"], "kwargs": None,
                              "modes": [{"m": m} for m in c["modes"]], "style": rng.choice([1, 2])})
        for _ in range(rng.choice([1, 1, 2, 3, 5]) if top else rng.choice([1, 1, 2])):
            call = gen_call(rng, c, own_params, vars_)
            if ivars and rng.random() < 0.5:
                # integer variables as call-site modes - but the mode list stays injective
                # (what a subroutine applied to the same mode twice means is not settled by
                # the statement, so it is never generated)
                ival = dict((it["name"], it["e"]["c"]) for it in body if it["k"] == "var" and it["type"] == "int")
                for pos in range(len(call["modes"])):
                    if rng.random() < 0.5:
                        cand = {"lv": rng.choice(ivars), "plus": rng.randrange(0, 3)}
                        trial = list(call["modes"])
                        trial[pos] = cand
                        vals = [m["m"] if "m" in m else ival[m["lv"]] + m.get("plus", 0) for m in trial]
                        if len(set(vals)) == len(vals):
                            call["modes"][pos] = cand
            stmts.append(call)
    rng.shuffle(stmts)
    if rng.random() < 0.35:
        lv = "i"
        vals = rng.sample(range(0, 9), rng.randint(1, 3))
        lb = [gen_op(rng, modes_pool, [] if top else [], vars_, loopvar=lv) for _ in range(rng.randint(1, 2))]
        small = [c for c in callees if len(c["modes"]) <= 2]
        if small and rng.random() < 0.5:
            lb.append(gen_call(rng, rng.choice(small), own_params, vars_, loopvar=lv))
        loop = {"k": "loop", "var": lv, "vals": vals, "body": lb}
        if rng.random() < 0.4:
            # a range header a:b or a:b:c (never empty; the values replace the list)
            a0 = rng.randrange(0, 5)
            step = rng.choice([1, 1, 2, 3])
            n_it = rng.randint(1, 3)
            loop["range"] = [a0, a0 + step * n_it] + ([step] if step != 1 or rng.random() < 0.3 else [])
            loop["vals"] = list(range(*loop["range"]))
        stmts.insert(rng.randint(0, len(stmts)), loop)
    # make sure every parameter is mentioned (otherwise it is not a parameter)
    return body + stmts


def decoy_text(rng, name, nmodes, same_arity):
    n = nmodes if same_arity else nmodes + 1
    ms = rng.sample(range(40, 60), n)
    lines = ["name %s" % name, "version 1.0", ""]
    for m in ms:
        lines.append("Decoy(%d) | %d" % (m, m))
    return "\n".join(lines) + "\n"


def gen_plan(rng):
    fs = M.FS()
    steps = []
    link = None
    if rng.random() < 0.3:
        # one symbolic link to a directory; file names and include spellings may go through it
        link = {"path": rng.choice(["lnk", "other/lnk"]), "target": rng.choice(["lib/deep", "app/sub", "x/y"])}
        fs.links[link["path"]] = link["target"]
        steps.append({"op": "symlink", "path": link["path"], "target": link["target"]})
    cfg = {"nlibs": rng.randint(1, 4), "nest": rng.random() < 0.6, "faults": rng.random() < 0.35,
           "decoys": rng.random() < 0.8, "edits": rng.random() < 0.3, "planted": rng.random() < 0.12}
    # "includes nested to any depth": most runs stay shallow (<= 3 levels), one in seven is a
    # chain of up to six libraries, each including (mostly) the one before it
    cfg["maxdepth"] = 3
    if cfg["nest"] and rng.random() < 0.15:
        cfg["maxdepth"] = rng.choice([4, 5, 6])
        cfg["nlibs"] = rng.randint(cfg["maxdepth"], 6)
    libs = []      # {"name","path","depth"}
    used_paths = set()
    for j in range(cfg["nlibs"]):
        while True:
            path = posixpath.join(rng.choice(DIRS), rng.choice(BASENAMES))
            if path not in used_paths:
                break
        used_paths.add(path)
        name = "Sub%d" % j
        nested = []
        if cfg["nest"] and libs and rng.random() < (0.7 if cfg["maxdepth"] == 3 else 0.95):
            cands = [l for l in libs if l["depth"] < cfg["maxdepth"]]
            if cands and cfg["maxdepth"] > 3:
                # deep chains: prefer the deepest library so far
                deepest = max(l["depth"] for l in cands)
                nested = [rng.choice([l for l in cands if l["depth"] == deepest])]
                if len(cands) > 1 and rng.random() < 0.2:
                    nested.append(rng.choice([l for l in cands if l is not nested[0]]))
            elif cands:
                nested = rng.sample(cands, 1 if rng.random() < 0.8 else min(2, len(cands)))
        params = rng.sample(PARAMS, rng.choice([0, 0, 1, 1, 2, 3]))
        modes_pool = list(rng.choice(MODE_SETS))
        callees = [M.expand_file(fs, l["path"]) for l in nested]
        includes = [spell(rng, posixpath.dirname(path), l["path"], fs=fs) for l in nested]
        if nested and rng.random() < 0.15:
            includes.append(includes[0])                                  # repeated include line
        if nested and rng.random() < 0.15:
            includes.append(spell(rng, posixpath.dirname(path), nested[0]["path"], fs=fs))   # second spelling
        forward = None
        if callees and len(callees[0]["params"]) >= 2 and rng.random() < 0.4:
            # the enclosing template has the callee's parameter names and hands them on as
            # bare symbols under a PERMUTATION of those names (theta={phi}, phi={theta}):
            # a pure forwarding call whose name-to-name mapping is not the identity
            inner = list(callees[0]["params"])
            params = inner + [q for q in params if q not in inner][:1]
            perm = list(inner)
            while perm == inner:
                rng.shuffle(perm)
            forward = (callees[0]["name"], [[p_in, {"c": 0, "t": [[1, "p", p_out]]}] for p_in, p_out in zip(inner, perm)])
        body = gen_body(rng, fs, params, callees, modes_pool)
        if forward:
            done = False
            for it in _flat(body):
                if it["k"] == "call" and it["prog"] == forward[0] and it["kwargs"] is not None and \
                        (not done or rng.random() < 0.5):
                    it["kwargs"] = copy.deepcopy(forward[1])
                    rng.shuffle(it["kwargs"])
                    done = True
        prog = {"name": name, "target": None, "includes": includes, "comments": rng.random() < 0.4,
                "body": body}
        fs.files[path] = prog
        libs.append({"name": name, "path": path, "depth": 1 + max([l["depth"] for l in nested] or [0])})
        steps.append({"op": "write", "path": path, "prog": prog})
    # main file
    maindir = rng.choice(DIRS)
    if link and rng.random() < 0.6:
        maindir = link["target"]
    mainpath = posixpath.join(maindir, "main.xbb")
    direct = rng.sample(libs, rng.randint(1, len(libs)))
    if rng.random() < 0.7 and libs[-1] not in direct:
        direct.append(libs[-1])        # the deepest library is usually included
    includes = [spell(rng, maindir, l["path"], fs=fs) for l in direct]
    if rng.random() < 0.2:
        includes.append(includes[0])
    if rng.random() < 0.2:
        includes.append(spell(rng, maindir, direct[0]["path"], fs=fs))
    callees = [M.expand_file(fs, l["path"]) for l in direct]
    body = gen_body(rng, fs, [], callees, list(range(0, 8)), top=True)
    if cfg["planted"]:
        c = rng.choice(callees)
        body.insert(rng.randint(0, len(body)), gen_call(rng, c, [], [], wrong=rng.choice(["arity", "kw"])))
    main = {"name": "Main", "target": rng.choice([None, "gaussian (shots=10)"]), "includes": includes,
            "comments": rng.random() < 0.4, "body": body}
    fs.files[mainpath] = main
    steps.append({"op": "write", "path": mainpath, "prog": main})
    # optionally a second project with the SAME relative layout under twin/ but other bodies:
    # loaded from its own directory with the same relative names as the first one (anything
    # remembered per relative name or per (directory string, include string) goes stale)
    twin = rng.random() < 0.3
    if twin:
        for path, prog in sorted(fs.files.items()):
            if not isinstance(prog, dict):
                continue
            p2 = copy.deepcopy(prog)
            # the twin is self-contained: an absolute spelling would pull in the first
            # project's file, i.e. two files declaring one program name (left open)
            p2["includes"] = [posixpath.relpath("twin/" + sp[len("<ROOT>/"):], posixpath.dirname("twin/" + path))
                              if sp.startswith("<ROOT>/") else sp for sp in p2["includes"]]
            for it in _flat(p2["body"]):
                if it["k"] == "op":
                    it["op"] = rng.choice(OPS2 if len(it["modes"]) == 2 else (OPS0 if it["args"] is None else OPS))
                    if it["args"]:
                        it["args"] = [{"c": const(rng), "t": e["t"]} for e in it["args"]]
            fs.files["twin/" + path] = p2
            steps.append({"op": "write", "path": "twin/" + path, "prog": p2, "twin": True})
    # load steps (environment = cwd x naming style), with decoys where a wrong rule would look
    nloads = rng.choice([1, 2, 2, 3, 4])
    if twin:
        nloads = max(nloads, 2)
    cwds = [rng.choice([maindir, "", "other", "lib", "app", "/", "x/y", "decoyhome"]) for _ in range(nloads)]
    if cfg["decoys"]:
        edges = []      # (including file dir, spelling, true target, callee name, nmodes)
        for path, prog in list(fs.files.items()):
            for sp in prog["includes"]:
                try:
                    tgt = M.resolve(fs, posixpath.dirname(path), sp)
                    ex = M.expand_file(fs, tgt)
                except Exception:
                    continue
                edges.append((posixpath.dirname(path), sp, tgt, ex["name"], len(ex["modes"])))
        cands, first = [], []
        for (fdir, sp, tgt, name, nm) in edges:
            base = posixpath.basename(tgt)
            for cwd in sorted(set(cwds) | {maindir}):
                if cwd == "/":
                    continue
                if not sp.startswith("<ROOT>"):
                    # "the same spelling, but from the working directory": the wrong rule most
                    # worth having something to find
                    first.append((posixpath.normpath(posixpath.join(cwd, sp)), name, nm))
                cands.append((posixpath.join(cwd, base), name, nm))
            cands.append((posixpath.join(posixpath.dirname(fdir), base), name, nm))
        rng.shuffle(first)
        rng.shuffle(cands)
        cands = first[:5] + cands
        for (p, name, nm) in cands[:10]:
            p = posixpath.normpath(p)
            if p.startswith("..") or p in (".", ""):
                continue
            try:
                p = M.walk(fs, "", p)       # where a file written under that name really lands
            except M.Unknown:
                continue
            if p in fs.files or p in (".", "") or p in fs.links:
                continue
            text = decoy_text(rng, name, nm, same_arity=rng.random() < 0.6)
            fs.files[p] = ("text", text)
            steps.append({"op": "write", "path": p, "text": text, "decoy": True})
    for j in range(nloads):
        if j > 0 and cfg["edits"] and rng.random() < 0.5:
            l = rng.choice(libs)
            if rng.random() < 0.75 and isinstance(fs.files.get(l["path"]), dict):
                old = fs.files[l["path"]]
                # rewrite with a new body over the same mode set / parameters / includes
                newp = copy.deepcopy(old)
                for it in newp["body"]:
                    if it["k"] == "op" and it["args"]:
                        it["args"] = [{"c": const(rng), "t": e["t"]} for e in it["args"]]
                        it["op"] = rng.choice(OPS2 if len(it["modes"]) == 2 else OPS)
                fs.files[l["path"]] = newp
                steps.append({"op": "write", "path": l["path"], "prog": newp, "rewrite": True})
            else:
                fs.files.pop(l["path"], None)
                steps.append({"op": "unlink", "path": l["path"]})
        cwd = cwds[j]
        style = rng.choice(["abs", "rel", "rel", "loads"])
        lm, lmdir = mainpath, maindir
        if twin and (j < 2 or rng.random() < 0.5):
            # the first two loads alternate between the two projects, each from its own
            # directory under the same relative name
            if (j % 2 == 1) if j < 2 else rng.random() < 0.5:
                lm, lmdir = "twin/" + mainpath, posixpath.normpath(posixpath.join("twin", maindir))
            if j < 2 or rng.random() < 0.6:
                cwd, style = lmdir, "rel"
        steps.append({"op": "chdir", "path": cwd})
        st = {"out": "o%d" % j, "cwd": cwd}
        if style == "loads":
            m2 = copy.deepcopy(fs.files[lm])
            m2["includes"] = []
            for sp in fs.files[lm]["includes"]:
                try:
                    m2["includes"].append("<ROOT>/" + M.resolve(fs, lmdir, sp))
                except M.Unknown:
                    m2["includes"].append(sp)
            st.update({"op": "loads", "prog": m2})
        else:
            st.update({"op": "load", "path": lm, "style": style})
            if style == "rel" and rng.random() < 0.3:
                st["dot"] = True
            if link and lm == mainpath and rng.random() < 0.6 and maindir == link["target"] and link_safe(fs, mainpath):
                # name the main file through the link (<link>/main.xbb); see spell() for why
                # '..' never follows the link and why the file must be "link safe"
                name = link["path"] + "/main.xbb"
                try:
                    if M.walk(fs, "", name) == mainpath:
                        st["name"] = name
                except M.Unknown:
                    pass
        if cfg["faults"] and rng.random() < 0.6:
            files = [p for p, v in fs.files.items() if isinstance(v, dict)]
            if style == "loads":
                files = [p for p in files if p != lm]
            if files:
                p = rng.choice(sorted(files))
                k = rng.random()
                f = {"kind": "io", "path": p, "every": True}
                if k < 0.4:
                    f["what"] = rng.choice(["ENOENT", "EACCES", "EIO", "EMFILE", "EISDIR"])
                elif k < 0.6:
                    f["what"] = "tear"
                    f["after_item"] = rng.randint(0, max(0, len(fs.files[p]["body"]) - 1))
                elif k < 0.8:
                    # one short read at a statement boundary, the rest of the file follows
                    f["what"] = "short"
                    f["after_item"] = rng.randint(0, max(0, len(fs.files[p]["body"]) - 1))
                else:
                    withc = [q for q in sorted(files) if fs.files[q].get("comments")]
                    if withc:
                        f["path"] = rng.choice(withc)
                    f["what"] = "flip"
                    f["comment"] = rng.randrange(2)
                st["fault"] = f
        steps.append(st)
    if rng.random() < 0.15:
        cfg["glob_names"] = True
        steps = glob_names(rng, steps)
    return {"prop": PROP, "steps": steps, "cfg": cfg}


# legal but unusual names: path components containing characters that mean something to
# glob/fnmatch/regular expressions, each with a sibling that the component would MATCH if it
# were (wrongly) read as a pattern ("lib[1]" matches "lib1" and not itself; "pr?m.xbb" matches
# both).  A decoy declaring the same program is put at the all-siblings path of every file.
GLOB_NAMES = {"lib": ("lib[1]", "lib1"), "deep": ("d[e]ep", "deep"), "sub.xbb": ("s[u]b.xbb", "sub.xbb"),
              "x": ("x[0]", "x0"), "prim.xbb": ("pr?m.xbb", "prim.xbb"), "app": ("app*", "app2"),
              "inner.xbb": ("inner[!a].xbb", "innerb.xbb")}


def _rename(path, table, which=0):
    if not isinstance(path, str):
        return path
    return "/".join(table[c][which] if c in table else c for c in path.split("/"))


def glob_names(rng, steps):
    table = dict((k, v) for k, v in GLOB_NAMES.items() if rng.random() < 0.6)
    if not table:
        return steps
    inv = dict((v[0], v) for v in table.values())
    out = copy.deepcopy(steps)

    def fix_prog(prog):
        prog["includes"] = [_rename(sp, table) for sp in prog["includes"]]

    for st in out:
        for key in ("path", "target", "cwd", "name"):
            if key in st:
                st[key] = _rename(st[key], table)
        if isinstance(st.get("prog"), dict):
            fix_prog(st["prog"])
        if isinstance(st.get("fault"), dict) and "path" in st["fault"]:
            st["fault"]["path"] = _rename(st["fault"]["path"], table)
    # siblings: where the renamed path, read as a pattern, would look
    fs = M.FS()
    decoys = []
    taken = set(st["path"] for st in out if st["op"] in ("write", "symlink"))
    for st in out:
        if st["op"] == "symlink":
            fs.links[st["path"]] = st["target"]
        if st["op"] == "write" and "prog" in st:
            fs.files[st["path"]] = st["prog"]
    for st in out:
        if st["op"] != "write" or "prog" not in st or st.get("rewrite"):
            continue
        comps = st["path"].split("/")
        if not any(c in inv for c in comps):
            continue
        sib = "/".join(inv[c][1] if c in inv else c for c in comps)
        if sib in taken or any(sib.startswith(lp + "/") for lp in fs.links):
            continue
        try:
            ex = M.expand_file(fs, st["path"])
            name, nm = ex["name"], len(ex["modes"])
        except Exception:
            name, nm = st["prog"]["name"], 1
        taken.add(sib)
        decoys.append({"op": "write", "path": sib, "text": decoy_text(rng, name, max(1, nm), same_arity=rng.random() < 0.7),
                       "decoy": True, "glob_sibling": True})
    first = next((i for i, st in enumerate(out) if st["op"] in ("chdir", "load", "loads")), len(out))
    return out[:first] + decoys + out[first:]


# ------------------------------------------------------------------ oracle
def _num(r):
    """Decode a rendered scalar back into a float (None if not a plain number)."""
    if not isinstance(r, list) or not r:
        return None
    t = r[0]
    if t == "int":
        return float(int(r[1]))
    if t == "float":
        return float.fromhex(r[1])
    if t == "bool":
        return None
    if t == "complex":
        return float.fromhex(r[1]) if float.fromhex(r[2]) == 0.0 else None
    if t == "sym" and not r[2] and isinstance(r[3], list) and r[3][0] != "uneval":
        # a parameter-free symbolic number (e.g. sympy.Float): its value is what counts
        return float(r[3][0]) if float(r[3][1]) == 0.0 else None
    return None


def decode_ops(res):
    """Rendered program -> list of {"op","args","kwargs","modes"} plus mode set."""
    fields = dict((k, v) for k, v in res[1])
    ops = []
    for o in fields["ops"]:
        d = dict((k, v) for k, v in o[1])
        name = d["op"][1]
        modes = [_num(m) for m in d["modes"][1]]
        if "args" in d:
            args = [(_num(a), a) for a in d["args"][1]]
            kwargs = [[k[1], (_num(v), v)] for k, v in d["kwargs"][1]]
        else:
            args, kwargs = None, None
        ops.append({"op": name, "args": args, "kwargs": kwargs, "modes": modes})
    if not (isinstance(fields.get("modes"), list) and fields["modes"] and fields["modes"][0] == "set"):
        return ops, None, fields.get("len")
    modes = sorted(_num(m) for m in fields["modes"][1])
    return ops, modes, fields.get("len")


def _close(a, b):
    return a is not None and abs(a - b) <= 1e-9 * (1 + abs(b))


def compare_ops(got_ops, got_modes, got_len, want_ops, want_modes):
    if len(got_ops) != len(want_ops):
        return "program has %d operations, inlining gives %d" % (len(got_ops), len(want_ops))
    for n, (g, w) in enumerate(zip(got_ops, want_ops)):
        if g["op"] != w["op"]:
            return "operation %d is %s, inlining gives %s" % (n, g["op"], w["op"])
        if [int(m) if m is not None and m == int(m) else m for m in g["modes"]] != w["modes"]:
            return "operation %d (%s) acts on modes %s, inlining gives %s" % (n, g["op"], g["modes"], w["modes"])
        if (g["args"] is None) != (w["args"] is None):
            return "operation %d (%s): argument list %s, inlining gives %s" % (
                n, g["op"], "absent" if g["args"] is None else "present", "absent" if w["args"] is None else "present")
        if w["args"] is not None:
            if len(g["args"]) != len(w["args"]) or any(not _close(a[0], b) for a, b in zip(g["args"], w["args"])):
                return "operation %d (%s): positional arguments %s, inlining gives %s" % (
                    n, g["op"], [a[0] if a[0] is not None else a[1] for a in g["args"]], w["args"])
            gk = dict((k, v) for k, v in g["kwargs"])
            wk = dict((k, v) for k, v in w["kwargs"])
            # same keys, numerically equal values; the order of the keys is not part of
            # "equivalent to inlining" (it is covered by serialisation determinism elsewhere)
            if set(gk) != set(wk) or len(g["kwargs"]) != len(w["kwargs"]) or \
                    any(not _close(gk[k][0], wk[k]) for k in wk):
                return "operation %d (%s): keyword arguments %s, inlining gives %s" % (
                    n, g["op"], [[k, v[0] if v[0] is not None else v[1]] for k, v in g["kwargs"]], w["kwargs"])
    if got_modes is None or [int(m) for m in got_modes] != want_modes:
        return "program.modes is %s, the union of used modes is %s" % (got_modes, want_modes)
    if got_len != len(want_ops):
        return "len(program) is %s, expected %d" % (got_len, len(want_ops))
    return None


def run(plan, ctx):
    steps = plan["steps"]
    stats = {}

    def bump(k, n=1):
        stats[k] = stats.get(k, 0) + n

    H = fork_run(child.run_plan, steps, ctx["root"], ctx["scratch"], mode="history", observe="none")
    by_i = {e["i"]: e for e in H}
    fs = M.FS()
    viol = []
    nontrivial = False
    cwd = ""
    prev_expected = {}
    for i, st in enumerate(steps):
        op = st["op"]
        if op == "write":
            fs.files[posixpath.normpath(st["path"])] = st["prog"] if "prog" in st else ("text", st.get("text"))
            if st.get("decoy"):
                bump("decoys_written")
            continue
        if op == "unlink":
            fs.files.pop(posixpath.normpath(st["path"]), None)
            bump("unlinks")
            continue
        if op == "chdir":
            cwd = st["path"]
            continue
        if op == "symlink":
            fs.links[posixpath.normpath(st["path"])] = posixpath.normpath(st["target"])
            bump("symlinks")
            continue
        if op not in child.LOAD_OPS:
            continue
        ev = by_i[i]
        bump("loads")
        bump("style:" + (st.get("style") or "loads"))
        if plan.get("cfg", {}).get("glob_names"):
            bump("probe:load_in_tree_with_glob_characters_in_names")
        f = fs.copy()
        if op == "loads":
            mainpath = "__loads__/main.xbb"
            f.files[mainpath] = st["prog"]
        elif st.get("name"):
            try:
                mainpath = M.walk(f, "", st["name"])
            except M.Unknown:
                bump("model_unknown")
                continue
            bump("probe:main_named_through_symlink")
        else:
            mainpath = posixpath.normpath(st["path"])
        if isinstance(f.files.get(mainpath), dict) and f.links and \
                any(any(lp.split("/")[-1] in sp.split("/") for lp in f.links) for p2 in f.files.values()
                    if isinstance(p2, dict) for sp in p2["includes"]):
            bump("probe:include_spelled_through_symlink")
        fault = st.get("fault")
        fired = bool(ev.get("fired"))
        want_free = M.expected(f, mainpath)
        accept = [want_free]
        klass = "fault-free"
        if fault:
            what = fault["what"]
            bump("fault_configured:" + what)
            on_include = posixpath.normpath(fault["path"]) != mainpath
            if on_include:
                bump("fault_configured:any_kind_on_an_included_file")
            if fired:
                bump("fault_fired:" + what)
                if on_include:
                    bump("fault_fired:any_kind_on_an_included_file")
            # torn / flipped content is real on disk during the load: whoever reads the file,
            # through whatever API, reads that content - the model decides on the faulted tree
            # whether the file matters at all.  errno / short reads exist only at the open()
            # seam: they count only if they fired there.
            if what in ("tear", "flip") or fired:
                klass = "faulted"
                fp = posixpath.normpath(fault["path"])
                if what == "tear":
                    f2 = f.copy()
                    tp = copy.deepcopy(f.files[fp]) if isinstance(f.files.get(fp), dict) else None
                    if tp is None:
                        accept = [("unknown", "torn file is not modelled")]
                    else:
                        tp["body"] = tp["body"][:fault["after_item"]]
                        f2.files[fp] = tp
                        # the program for the bytes actually delivered - or an error (an
                        # implementation may notice that the read came up short)
                        accept = [M.expected(f2, mainpath), ("raise", "torn file")]
                elif what == "flip":
                    accept = [("raise", "undecodable byte"), want_free]
                elif what == "short":
                    # nothing is lost by a short read: the whole file must be used (or an error raised)
                    accept = [want_free, ("raise", "short read")]
                else:
                    accept = [("raise", "read error")]
                    if fp != mainpath and fp not in M.called_programs(f, mainpath) and want_free[0] == "ok":
                        accept.append(want_free)
        if any(a[0] == "unknown" for a in accept):
            bump("model_unknown")
            continue
        # reach probes
        main_prog = f.files.get(mainpath)
        if isinstance(main_prog, dict):
            calls = [it["prog"] for it in _flat(main_prog["body"]) if it["k"] == "call"]
            if calls:
                maindir = posixpath.dirname(mainpath)
                if len(calls) != len(set(calls)):
                    bump("probe:subroutine_called_repeatedly")
                if op == "load" and cwd != maindir and any(not s.startswith("<ROOT>") for s in main_prog["includes"]):
                    bump("probe:relative_include_with_cwd_elsewhere")
                depth = _depth(f, mainpath)
                bump("probe:nesting_depth_%d" % depth)
                if _unsorted_modes(f, mainpath):
                    bump("probe:mode_set_order_differs_from_sorted")
                if len(calls) != len(set(calls)) or depth >= 2 or (op == "load" and cwd != maindir):
                    nontrivial = True
        # verdict
        ok = bool(ev.get("ok"))
        if ok:
            got_ops, got_modes, got_len = decode_ops(ev["res"])
        detail = None
        matched = False
        for a in accept:
            if a[0] == "raise" and not ok:
                matched = True
                bump("outcome:raised_as_required")
            elif a[0] == "ok" and ok:
                why = compare_ops(got_ops, got_modes, got_len, a[1], a[2])
                if why is None:
                    matched = True
                    bump("outcome:equals_model")
                else:
                    detail = why
        if not matched:
            if ok and all(a[0] == "raise" for a in accept):
                detail = "load returned a program although %s requires an error" % accept[0][1]
            elif not ok and all(a[0] == "ok" for a in accept):
                detail = "load raised %s: %s; the model gives a program of %d operations" % (
                    ev["res"][1], ev["res"][2][:200], len(accept[0][1]))
            elif detail is None:
                detail = "outcome %s matches none of the acceptable outcomes" % ("program" if ok else ev["res"][1])
            inv = "M3" if klass == "faulted" else "M1"
            sig = (mainpath, op)
            viol.append({"inv": inv, "step": i, "detail": "%s [cwd=%r, %s%s] files opened: %s" %
                         (detail, cwd, op if op == "loads" else "load(%s path)" % st.get("style"),
                          ", fault %s on %s" % (fault["what"], fault["path"]) if fault and klass == "faulted" else "",
                          ev.get("opens"))})
        # M2: the same tree loaded again (other cwd/style) must give the same answer - implied by
        # comparing every load with the model; counted here
        key = D.sha([sorted((k, D.sha(v)) for k, v in f.files.items() if k != "__loads__/main.xbb")])
        if key in prev_expected and not fault:
            bump("probe:same_tree_loaded_again")
        prev_expected[key] = True
    return {"violations": viol, "stats": stats, "log": D.sha(H), "nontrivial": nontrivial}


def _flat(items):
    for it in items:
        if it["k"] == "loop":
            for b in it["body"]:
                yield b
        else:
            yield it


def _depth(fs, path, seen=()):
    prog = fs.files.get(path)
    if not isinstance(prog, dict) or path in seen:
        return 0
    d = 0
    for sp in prog["includes"]:
        try:
            t = M.resolve(fs, posixpath.dirname(path), sp)
        except M.Unknown:
            continue
        d = max(d, 1 + _depth(fs, t, seen + (path,)))
    return d


def _unsorted_modes(fs, mainpath):
    prog = fs.files.get(mainpath)
    for sp in prog["includes"]:
        try:
            ex = M.expand_file(fs, M.resolve(fs, posixpath.dirname(mainpath), sp))
        except Exception:
            continue
        if list(set(ex["modes"])) != sorted(ex["modes"]):
            return True
    return False


def effectiveness(total, tier):
    need = ["probe:subroutine_called_repeatedly", "probe:relative_include_with_cwd_elsewhere",
            "probe:mode_set_order_differs_from_sorted", "decoys_written", "outcome:equals_model"]
    if total.get("loads", 0) > 2000:
        problems = ["reach probe stuck at zero: " + k for k in need if not total.get(k)]
        for k, v in total.items():
            if k.startswith("fault_configured:") and v >= 30 and not total.get("fault_fired:" + k.split(":", 1)[1]):
                problems.append("fault kind %s was configured %d times and never fired" % (k.split(":", 1)[1], v))
        if total.get("model_unknown", 0) > 0.2 * total["loads"]:
            problems.append("the model could not decide %d of %d loads" % (total["model_unknown"], total["loads"]))
        return "; ".join(problems) or None
    return None


def describe():
    return {
        "rule": "environments are drawn by a seeded PRNG: 1-4 library programs in different directories "
                "(non-contiguous unsorted mode sets, 0-3 template parameters, scalar variables, loops, nested "
                "includes to depth 3, chains up to depth 6 in one run of seven, parameters forwarded under permuted names), a main program with 1-5 calls per included program, include lines in "
                "relative / ./ / non-normalised / absolute / repeated spellings, decoy files where a wrong "
                "resolution rule would look (in 15 % of the runs names contain glob characters and a pattern-matching sibling exists), then 1-4 loads under different working directories and naming "
                "styles with optional rewrites/removals and file-read faults; distinct by plan digest; "
                "non-trivial when there is at least one call site and (cwd differs from the main file's "
                "directory, or nesting depth >= 2, or a subroutine is called at least twice)",
        "components": {"real": ["blackbird (working tree)", "antlr4 FileStream", "kernel file system (tmpfs)",
                                "os.chdir / os.path", "sympy lambdify (template instantiation)"],
                       "stubs": [], "interposers": ["builtins.open wrapper (errno and short-read faults only)",
                                                     "rewrite + restore of simulated files around a load (torn / flipped content)"],
                       "reference_model": "bbsim/model07.py (no blackbird import)"},
        "assumptions": ["constructs the statement of C07 leaves open are not generated (registers inside "
                        "included programs, one program name declared by two included files, '..' after a "
                        "symbolic link, a call-site mode list naming one mode twice, circular includes, "
                        "relative includes in loads(), transitive use of a nested include by the top file)",
                        "a call whose keyword set differs from the callee's parameters (missing or extra "
                        "keyword), a wrong number of modes, and arguments given to a parameter-free program "
                        "must raise (property C11 says such calls are never turned into a program)",
                        "values are compared numerically (1e-9 relative); keyword order inside an operation "
                        "is not compared"],
    }
