"""Controller shared by the plan-based checks (C07, C12, C13).

 main process  = zygote (imports blackbird, warms the parser, never runs blackbird code)
 16 workers    = forks of the zygote; each generates plans for run indices k, k+W, ...,
                 executes them in further forks (history / pristine), checks the oracle,
                 minimises failures, writes replay files
 results       = JSON lines over a pipe to the main process, which aggregates evidence.

Exit codes: 0 held, 1 violation (not a listed known finding), 2 harness error."""
import argparse
import hashlib
import importlib
import json
import os
import random
import select
import subprocess
import sys
import time
import traceback

from . import digest as D
from . import procs, zygote
from .procs import HarnessError
from .shrink import shrink_plan

VERIF = os.path.dirname(os.path.dirname(os.path.abspath(__file__)))
OUT = os.environ.get("BBSIM_OUT_DIR", VERIF)      # evidence/ and replays/ go here
MODULES = {"C12": "bbsim.c12", "C13": "bbsim.c13", "C07": "bbsim.c07"}
MAX_SHRINK_PER_WORKER = 2
SHRINK_BUDGET_S = float(os.environ.get("BBSIM_SHRINK_BUDGET_S", "45"))


def hashseed_for(seed):
    return int(hashlib.sha256(("bbsim-hashseed:%d" % seed).encode()).hexdigest(), 16) % 4294967295


def ensure_hashseed(seed, force=None):
    """Re-exec the interpreter so that PYTHONHASHSEED is a function of VERIF_SEED."""
    if force is None and os.environ.get("BBSIM_FORCE_HASHSEED"):
        force = int(os.environ["BBSIM_FORCE_HASHSEED"])      # self-test: another controller hash seed
    want = str(force if force is not None else hashseed_for(seed))
    if os.environ.get("PYTHONHASHSEED") == want and os.environ.get("BBSIM_REEXEC") == "1":
        return int(want)
    env = dict(os.environ)
    env["PYTHONHASHSEED"] = want
    env["BBSIM_REEXEC"] = "1"
    env["PYTHONDONTWRITEBYTECODE"] = "1"
    sys.stdout.flush()
    os.execve(sys.executable, [sys.executable, "-m", "bbsim.main"] + sys.argv[1:], env)


def run_rng(prop, seed, idx):
    return random.Random("%s:%d:%d" % (prop, seed, idx))


def load_known():
    p = os.path.join(VERIF, "known_findings.json")
    if not os.path.exists(p):
        return []
    with open(p) as f:
        return json.load(f).get("findings", [])


def match_known(prop, v, known):
    for k in known:
        if k.get("status") != "open" or k.get("property") != prop:
            continue
        m = k.get("match", {})
        if m.get("inv") and m["inv"] != v.get("inv"):
            continue
        blob = json.dumps(v)
        if all(s in blob for s in m.get("contains", [])):
            return k
    return None


def make_ctx():
    root, scratch, d = procs.worker_dirs()
    return {"root": root, "scratch": scratch, "dir": d}


COLD_EVERY = 32


def one_run(mod, prop, seed, idx, ctx, want_plan=False):
    rng = run_rng(prop, seed, idx)
    plan = mod.gen_plan(rng)
    plan["seed"] = seed
    plan["idx"] = idx
    if ctx.get("cold") is not None and idx % COLD_EVERY == COLD_EVERY - 1:
        plan["cold"] = True
    gen_sha = D.sha(plan["steps"])       # the generated plan: a function of VERIF_SEED alone
    if hasattr(mod, "prepare"):
        plan = mod.prepare(plan, ctx)    # fault instants resolved by a dry run of the code under test
    res = mod.run(plan, ctx)
    res["plan_sha"] = D.sha(plan["steps"])
    res["gen_sha"] = gen_sha
    return plan, res


def worker_main(mod, prop, seed, indices, wfd, deadline, sample_idx, cold=None):
    ctx = make_ctx()
    ctx["cold"] = cold
    shrunk = 0
    out = os.fdopen(wfd, "w", buffering=1)
    try:
        for idx in indices:
            if time.monotonic() > deadline:
                out.write(json.dumps({"type": "stopped_early", "idx": idx}) + "\n")
                break
            try:
                try:
                    plan, res = one_run(mod, prop, seed, idx, ctx)
                except HarnessError as e:
                    if "timed out" not in str(e):
                        raise
                    # a wall-clock timeout on a loaded machine: the run is deterministic,
                    # so it is simply executed once more before it counts as a harness error
                    plan, res = one_run(mod, prop, seed, idx, ctx)
            except HarnessError as e:
                out.write(json.dumps({"type": "harness_error", "idx": idx, "error": str(e)[:2000]}) + "\n")
                continue
            except Exception:
                out.write(json.dumps({"type": "harness_error", "idx": idx,
                                      "error": traceback.format_exc()[-2000:]}) + "\n")
                continue
            msg = {"type": "run", "idx": idx, "plan_sha": res["plan_sha"], "gen_sha": res["gen_sha"], "log": res["log"],
                   "stats": res["stats"], "nontrivial": res["nontrivial"], "nviol": len(res["violations"])}
            if idx in sample_idx:
                msg["sample"] = trim_plan(plan)
            if res["violations"]:
                v0 = res["violations"][0]
                small = plan
                if shrunk < MAX_SHRINK_PER_WORKER:
                    shrunk += 1

                    def fails(p, inv=v0["inv"]):
                        try:
                            r = mod.run(p, ctx)
                        except HarnessError:
                            return False
                        return any(v["inv"] == inv for v in r["violations"])
                    try:
                        small = shrink_plan(plan, fails, SHRINK_BUDGET_S)
                        r2 = mod.run(small, ctx)
                        vs = [v for v in r2["violations"] if v["inv"] == v0["inv"]]
                        if vs:
                            v0 = vs[0]
                        else:
                            small = plan
                    except HarnessError:
                        small = plan
                path = write_replay(prop, seed, idx, small, v0, plan)
                msg["violation"] = v0
                msg["replay"] = path
            out.write(json.dumps(msg) + "\n")
    except BaseException:
        out.write(json.dumps({"type": "harness_error", "idx": -1,
                              "error": traceback.format_exc()[-2000:]}) + "\n")
    finally:
        import shutil
        shutil.rmtree(ctx["dir"], ignore_errors=True)
        try:
            out.flush()
        except OSError:
            pass


def trim_plan(plan, limit=6000):
    s = json.dumps(plan)
    if len(s) <= limit:
        return plan
    steps = []
    for st in plan["steps"]:
        steps.append(st)
        if len(json.dumps(steps)) > limit:
            steps.pop()
            steps.append({"op": "...", "note": "%d further steps omitted" % (len(plan["steps"]) - len(steps))})
            break
    return {"prop": plan.get("prop"), "steps": steps, "cfg": plan.get("cfg")}


def write_replay(prop, seed, idx, plan, violation, original):
    d = os.path.join(OUT, "replays")
    os.makedirs(d, exist_ok=True)
    path = os.path.join(d, "%s-%d-%d.json" % (prop, seed, idx))
    doc = {"property": prop, "seed": seed, "idx": idx,
           "hashseed": int(os.environ.get("PYTHONHASHSEED", "0")),
           "violation": violation, "plan": plan,
           "original_plan_sha": D.sha(original["steps"]), "original_steps": len(original["steps"]),
           "minimised_steps": len(plan["steps"])}
    with open(path, "w") as f:
        json.dump(doc, f, indent=1)
    return path


def replay(prop, path, quiet=False):
    with open(path) as f:
        doc = json.load(f)
    mod = importlib.import_module(MODULES[prop])
    zygote.import_blackbird()
    cold = procs.ColdServer() if doc["plan"].get("cold") else None
    zygote.warm_up(os.path.join(VERIF, "corpus"))
    ctx = make_ctx()
    if cold:
        ctx["pristine_run"] = cold.run
    try:
        # the replaying interpreter is itself a zygote: mod.run only forks H and P
        res = mod.run(doc["plan"], ctx)
    finally:
        import shutil
        shutil.rmtree(ctx["dir"], ignore_errors=True)
    want = doc.get("violation", {}).get("inv")
    same = [v for v in res["violations"] if v["inv"] == want] if want else res["violations"]
    print(json.dumps({"replay": path, "recorded_invariant": want, "same_invariant_again": bool(same),
                      "violations": res["violations"][:5], "log": res["log"]}))
    if res["violations"]:
        print("VIOLATION property=%s replay=%s" % (prop, path))
        return 1
    return 0


def merge_stats(total, s):
    for k, v in s.items():
        if isinstance(v, list):
            cur = total.setdefault(k, set())
            cur.update(v)
        else:
            total[k] = total.get(k, 0) + v


def batch(prop, tier, seed, workers, nruns, budget_s=None):
    t0 = time.monotonic()
    mod = importlib.import_module(MODULES[prop])
    procs.cleanup_stale()
    zygote.import_blackbird()
    colds = [procs.ColdServer() for _ in range(workers)] if getattr(mod, "USES_COLD", False) else []
    zygote.warm_up(os.path.join(VERIF, "corpus"))
    nominal = 60 if tier == "quick" else 600
    deadline = t0 + (budget_s or nominal * 10)
    sample_idx = {0, 1, 2}
    pipes = []
    for k in range(workers):
        r, w = os.pipe()
        pid = os.fork()
        if pid == 0:
            code = 0
            try:
                os.close(r)
                for (rr, _) in pipes:
                    os.close(rr)
                for j, c in enumerate(colds):
                    if j != k:
                        c.sock.close()
                worker_main(mod, prop, seed, range(k, nruns, workers), w, deadline, sample_idx,
                            cold=colds[k] if colds else None)
            except BaseException:
                traceback.print_exc()
                code = 3
            finally:
                os._exit(code)
        os.close(w)
        pipes.append((r, pid))
    for c in colds:
        c.sock.close()          # the workers hold their own ends now
    bufs = {r: b"" for r, _ in pipes}
    open_fds = set(bufs)
    runs = []
    harness_errors = []
    stopped_early = False
    hard_deadline = deadline + 180
    while open_fds:
        if time.monotonic() > hard_deadline:
            for _, pid in pipes:
                try:
                    os.kill(pid, 9)
                except OSError:
                    pass
            harness_errors.append("batch exceeded hard deadline")
            break
        rl, _, _ = select.select(list(open_fds), [], [], 1.0)
        for r in rl:
            b = os.read(r, 1 << 20)
            if not b:
                open_fds.discard(r)
                os.close(r)
                continue
            bufs[r] += b
            while b"\n" in bufs[r]:
                line, bufs[r] = bufs[r].split(b"\n", 1)
                msg = json.loads(line)
                if msg["type"] == "run":
                    runs.append(msg)
                elif msg["type"] == "harness_error":
                    harness_errors.append("run %s: %s" % (msg["idx"], msg["error"]))
                elif msg["type"] == "stopped_early":
                    stopped_early = True
    for _, pid in pipes:
        try:
            _, status = os.waitpid(pid, 0)
            if status != 0:
                harness_errors.append("worker %d exited with status %d" % (pid, status))
        except ChildProcessError:
            pass
    wall = time.monotonic() - t0
    runs.sort(key=lambda m: m["idx"])
    # ---- verdicts -----------------------------------------------------------
    known = load_known()
    violations = []
    known_hits = []
    for m in runs:
        if "violation" not in m:
            continue
        k = match_known(prop, m["violation"], known)
        if k:
            known_hits.append((k, m))
        else:
            violations.append(m)
    confirmed = []
    for m in violations[:8]:
        # confirm in a brand-new interpreter: the replay must fail the same way
        env = dict(os.environ)
        env.pop("BBSIM_REEXEC", None)
        p = subprocess.run([sys.executable, "-m", "bbsim.main", prop, "--replay", m["replay"]],
                           cwd=VERIF, env=env, capture_output=True, text=True, timeout=600)
        if p.returncode == 1 and "VIOLATION property=%s" % prop in p.stdout and \
                '"same_invariant_again": true' in p.stdout:
            confirmed.append(m)
        else:
            harness_errors.append("run %d: violation %s did not reproduce from %s (exit %d): %s" %
                                  (m["idx"], m["violation"]["inv"], m["replay"], p.returncode,
                                   (p.stdout + p.stderr)[-500:]))
    unconfirmed_rest = violations[8:]
    # ---- evidence -----------------------------------------------------------
    total = {}
    for m in runs:
        merge_stats(total, m["stats"])
    for k, v in list(total.items()):
        if isinstance(v, set):
            total[k + "_count"] = len(v)
            total[k] = sorted(v)[:40]
    distinct = len(set(m["plan_sha"] for m in runs))
    nontrivial = len(set(m["plan_sha"] for m in runs if m["nontrivial"]))
    desc = mod.describe()
    samples = [m["sample"] for m in runs if "sample" in m]
    log_digest = D.sha([[m["idx"], m["plan_sha"], m["log"]] for m in runs])
    if os.environ.get("BBSIM_DUMP_LOGS"):
        with open(os.environ["BBSIM_DUMP_LOGS"], "w") as f:
            for m in runs:
                f.write(json.dumps([m["idx"], m["plan_sha"], m["log"], m["nviol"], m["gen_sha"]]) + "\n")
    ev = {
        "property_id": prop, "tier": tier, "seed": seed, "level": "exploration",
        "coverage": {
            "evaluations": len(runs),
            "distinct_nontrivial": nontrivial,
            "distinct_plans": distinct,
            "rule": desc["rule"],
            "samples": samples[:3],
            "runs_requested": nruns,
            "stopped_early": stopped_early,
            "runs_per_hour": int(len(runs) / wall * 3600) if wall > 0 else 0,
            "seeds_per_hour": "one VERIF_SEED per batch; %d independent run seeds (VERIF_SEED, run index) per batch" % len(runs),
            "simulated_time": "n/a (the system reads no clock; there are no timers)",
            "counters": total,
            "fault_kinds": {k.split(":", 1)[1]: {"configured": v, "fired": total.get("fault_fired:" + k.split(":", 1)[1], 0)}
                            for k, v in total.items() if k.startswith("fault_configured:")},
            "components": desc["components"],
            "event_log_digest": log_digest,
            "workers": workers,
            "hashseed": int(os.environ.get("PYTHONHASHSEED", "0")),
            "known_findings_hit": len(known_hits),
            "harness_errors": harness_errors[:5],
        },
        "assumptions": desc.get("assumptions", []),
        "wall_s": round(wall, 2),
        "violations": len(confirmed),
    }
    os.makedirs(os.path.join(OUT, "evidence"), exist_ok=True)
    with open(os.path.join(OUT, "evidence", prop + ".json"), "w") as f:
        json.dump(ev, f, indent=1)
    print("%s tier=%s seed=%d runs=%d distinct_nontrivial=%d wall=%.1fs log=%s" %
          (prop, tier, seed, len(runs), nontrivial, wall, log_digest))
    if stopped_early:
        print("NOTE wall-clock cap reached: %d of %d requested runs were executed (reported in the evidence; "
              "the verdict covers the executed runs only)" % (len(runs), nruns))
    seen_known = set()
    for k, m in known_hits:
        key = k.get("what")
        if key not in seen_known:
            seen_known.add(key)
            print("KNOWN-FINDING: property=%s %s" % (prop, k.get("what")))
    for m in confirmed:
        print("VIOLATION property=%s replay=%s" % (prop, m["replay"]))
        print("  invariant %s: %s" % (m["violation"]["inv"], m["violation"]["detail"][:400]))
    if unconfirmed_rest and confirmed:
        print("  (+%d further violating runs, replay files written but not re-confirmed)" % len(unconfirmed_rest))
    if harness_errors:
        for h in harness_errors[:10]:
            print("HARNESS-ERROR " + h[:1500])
    if confirmed:
        return 1
    if harness_errors or not runs:
        return 2
    ineffective = mod.effectiveness(total, tier) if hasattr(mod, "effectiveness") else None
    if ineffective:
        print("HARNESS-ERROR ineffective: " + ineffective)
        return 2
    return 0


def main(argv=None):
    ap = argparse.ArgumentParser(prog="check")
    ap.add_argument("prop")
    ap.add_argument("--tier", default=os.environ.get("VERIF_TIER", "quick"))
    ap.add_argument("--replay")
    ap.add_argument("--runs", type=int)
    ap.add_argument("--workers", type=int, default=int(os.environ.get("VERIF_WORKERS", "16")))
    ap.add_argument("--dump-logs", action="store_true")
    a = ap.parse_args(argv)
    seed = int(os.environ.get("VERIF_SEED", "0") or 0)
    if a.prop == "selftest":
        from . import selftest
        return selftest.main(a, seed)
    if a.prop == "C19":
        from . import c19
        return c19.main(a, seed)
    if a.prop not in MODULES:
        print("unknown property " + a.prop)
        return 2
    if a.replay:
        with open(a.replay) as f:
            hs = json.load(f).get("hashseed")
        ensure_hashseed(seed, force=hs)
        return replay(a.prop, a.replay)
    ensure_hashseed(seed)
    mod = importlib.import_module(MODULES[a.prop])
    nruns = a.runs or mod.runs_for(a.tier)
    if os.environ.get("VERIF_BUDGET_S"):
        nominal = 60 if a.tier == "quick" else 600
        nruns = max(16, int(nruns * float(os.environ["VERIF_BUDGET_S"]) / nominal))
    return batch(a.prop, a.tier, seed, a.workers, nruns)
