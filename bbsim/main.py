import sys
from .runner import main

if __name__ == "__main__":
    sys.exit(main())
