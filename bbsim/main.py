import sys
import traceback


def _main():
    try:
        from .runner import main
        return main()
    except SystemExit:
        raise
    except BaseException:            # never let a harness failure look like a verdict
        traceback.print_exc()
        print("HARNESS-ERROR uncaught exception in the checker (see traceback above)")
        return 2


if __name__ == "__main__":
    sys.exit(_main())
