"""Self-tests of the simulator (DESIGN.md §6): determinism of every check — same
VERIF_SEED twice, at 16/4/1 workers, and plan generation under another controller
hash seed — compared by per-run event-log digests.  Not part of any verdict."""
import json
import os
import subprocess
import sys
import tempfile

VERIF = os.path.dirname(os.path.dirname(os.path.abspath(__file__)))


def run_batch(prop, n, workers, seed, hashseed=None, evidence_backup=True):
    from .procs import scratch_top
    fd, path = tempfile.mkstemp(prefix="bbsim-log-", dir=scratch_top())
    os.close(fd)
    env = dict(os.environ)
    env.pop("BBSIM_REEXEC", None)
    env["VERIF_SEED"] = str(seed)
    env["BBSIM_DUMP_LOGS"] = path
    env["BBSIM_OUT_DIR"] = os.path.join(scratch_top(), "selftest-out")
    if hashseed is not None:
        env["BBSIM_FORCE_HASHSEED"] = str(hashseed)
    p = subprocess.run([sys.executable, "-m", "bbsim.main", prop, "--runs", str(n), "--workers", str(workers)],
                       cwd=VERIF, env=env, capture_output=True, text=True)
    try:
        with open(path) as f:
            rows = [json.loads(l) for l in f]
    finally:
        os.unlink(path)
    return p.returncode, rows, p.stdout[-400:]


def main(a, seed):
    n = a.runs or 320
    ok = True
    report = {}
    keep = {}
    for prop in ("C07", "C12", "C13"):
        ev = os.path.join(VERIF, "evidence", prop + ".json")
        keep[prop] = open(ev).read() if os.path.exists(ev) else None
    try:
        for prop in ("C07", "C12", "C13"):
            rc1, a16, _ = run_batch(prop, n, 16, seed)
            rc2, b16, _ = run_batch(prop, n, 16, seed)
            rc3, c4, _ = run_batch(prop, n, 4, seed)
            rc4, d1, _ = run_batch(prop, max(16, n // 8), 1, seed)
            rc5, e_hs, _ = run_batch(prop, n, 16, seed, hashseed=12345)
            same_twice = a16 == b16
            same_w4 = a16 == c4
            same_w1 = a16[:len(d1)] == d1
            # under another controller hash seed the GENERATED plans must be identical (the
            # generator must not depend on set/dict order); fault instants resolved by a dry
            # run of the code under test, and outcomes that print sets, may legitimately differ
            plans_hs = [[r[0], r[4]] for r in a16] == [[r[0], r[4]] for r in e_hs]
            logs_hs = a16 == e_hs
            report[prop] = {"runs": len(a16), "exit_codes": [rc1, rc2, rc3, rc4, rc5],
                            "identical_logs_same_seed_twice": same_twice,
                            "identical_logs_4_workers": same_w4, "identical_logs_1_worker": same_w1,
                            "identical_plans_other_controller_hashseed": plans_hs,
                            "identical_logs_other_controller_hashseed": logs_hs}
            if not (same_twice and same_w4 and same_w1 and plans_hs) or len(a16) != n:
                ok = False
                diffs = [(x, y) for x, y in zip(a16, b16) if x != y][:3]
                report[prop]["first_differences"] = diffs
    finally:
        for prop, text in keep.items():
            if text is not None:
                with open(os.path.join(VERIF, "evidence", prop + ".json"), "w") as f:
                    f.write(text)
    os.makedirs(os.path.join(VERIF, "selftest"), exist_ok=True)
    with open(os.path.join(VERIF, "selftest", "determinism.json"), "w") as f:
        json.dump(report, f, indent=1)
    print(json.dumps(report, indent=1))
    print("SELFTEST determinism: %s" % ("ok" if ok else "FAILED"))
    return 0 if ok else 2
