"""bbsim: deterministic simulation with fault injection for XanaduAI/blackbird.

See /verif/DESIGN.md.  Nothing in this package imports blackbird at module import
time: the package under test is imported explicitly by bbsim.zygote.import_blackbird()
from BBSIM_PKG_PATH (default /repo/blackbird_python).
"""
