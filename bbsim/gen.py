"""Seeded workload generator (shared): Blackbird scripts as small data models rendered
to text.  A script is {"head": [lines], "items": [[lines], ...], "defs": [names]} so
that minimisation can drop items structurally.  Everything is drawn from the rng that
is passed in; no set/dict-order dependence, no clock."""

MASTER_NAMES = ["a", "aa", "ab", "b", "p", "phi", "alpha", "s", "sq", "r",
                "n", "x", "foo", "i", "m", "k", "A", "U", "t", "zed", "p0", "p1"]
PNAMES = ["p0", "p1", "p2"]
GATES1 = ["Sgate", "Dgate", "Rgate", "Xgate", "Zgate", "Pgate", "Vgate", "Kgate"]
GATES2 = ["BSgate", "S2gate", "CXgate", "CZgate", "MZgate"]
GATES0 = ["Vac", "Vacuum", "Fourier"]
MEAS = ["MeasureX", "MeasureP", "MeasureFock", "MeasureHomodyne", "MeasureHeterodyne"]
DEVICES = ["gaussian", "fock", "X8_01", "TD2", "chip0"]
OPTKEYS = ["shots", "cutoff_dim", "copies", "temporal_modes", "phi", "opt"]
KWKEYS = ["a", "phi", "r", "select", "k", "theta"]
FUNCS_NUM = ["sqrt", "exp", "sin", "cos", "tanh", "arctan", "log"]
ALL_FEATURES = ["target_opts", "type_opts", "tdm", "scalars", "arrays", "array_params",
                "templates", "regrefs", "loops", "kwargs", "lists", "includes", "measure",
                "strings", "complex", "whole_array_param", "fp_edge", "deep_expr", "typed_equal"]
FAIL_KINDS = ["syntax", "undefined", "reserved", "nonint_mode", "bad_cast", "loop_value",
              "loop_body", "undefined_idx", "inc_missing", "inc_inner", "inc_call", "func_type"]
# arithmetic that leaves the floating-point range (inf / nan with a numpy warning)
FP_EDGES = ["1/0", "1/0.0", "10.0**400", "exp(1000)", "log(0)", "arcsin(2)", "0.0/0", "-1/0.0",
            "2.0**2000", "1e308*10", "sqrt(-1.0)", "arccosh(0.5)", "tan(pi/2)*1e300*1e300"]


# values that compare (and hash) equal across types: whatever is remembered per VALUE
# (memoised evaluations, interned constants) confuses them, and only across loads
TYPED_EQUAL = [[("int", "-1"), ("float", "-1.0"), ("complex", "-1+0j")],
               [("int", "1"), ("float", "1.0"), ("complex", "1+0j"), ("bool", "True")],
               [("int", "4"), ("float", "4.0"), ("complex", "4+0j")],
               [("float", "0.0"), ("float", "-0.0"), ("int", "0"), ("complex", "0j"), ("bool", "False")],
               [("int", "-2"), ("float", "-2.0"), ("int", "-1"), ("float", "-1.0")]]   # hash(-1) == hash(-2)


def swarm(rng):
    """Per-run configuration."""
    feats = [f for f in ALL_FEATURES if rng.random() < 0.6]
    npool = rng.randint(2, 8)
    pool = rng.sample(MASTER_NAMES, npool)
    return {"features": feats, "pool": pool,
            "typed_func": rng.choice(FUNCS_NUM), "typed_group": rng.randrange(len(TYPED_EQUAL)),
            "size": rng.choice([2, 3, 4, 6, 9, 14]),
            "fail_rate": rng.choice([0.0, 0.2, 0.4, 0.6]),
            "fail_kinds": [k for k in FAIL_KINDS if rng.random() < 0.7] or ["undefined"]}


def num(rng, kind="float"):
    if kind == "int":
        return str(rng.choice([0, 1, 2, 3, 4, 5, 7, 10]))
    if kind == "complex":
        return "%s%s%sj" % (rng.choice(["0.5", "1", "2.0", "0.25"]), rng.choice("+-"),
                            rng.choice(["1", "0.5", "2.0"]))
    return rng.choice(["0.5", "0.25", "1.5", "2.0", "0.125", "3", "1", "2", "0.75", "1e-2", "pi"])


class ScriptGen:
    def __init__(self, rng, cfg, name=None, libs=None):
        self.rng = rng
        self.cfg = cfg
        self.f = set(cfg["features"])
        self.pool = list(cfg["pool"])
        self.name = name or rng.choice(["Prog", "Main", "T1", "Circ", "job"])
        self.libs = libs or []      # [{"name","inc","modes":n,"params":[...]}] usable includes
        self.scalars = []           # (name, type) numeric scalars declared so far
        self.arrays = []            # (name, type, size)
        self.parrays = []
        self.params = []
        self.array_params = []      # (name, rows, cols) whole-array template parameters
        self.defs = []              # every name this script defines (vars, loop vars, params)
        self.tdm = False
        self.nmodes = rng.randint(1, 6)

    # ---- expressions -----------------------------------------------------
    def free_name(self):
        used = set(n for n, _ in self.scalars) | set(a[0] for a in self.arrays) | set(self.parrays)
        c = [n for n in self.pool if n not in used]
        if c:
            return self.rng.choice(c)
        return self.rng.choice(self.pool) + str(self.rng.randint(2, 9))

    def atom(self, sym_ok, reg_ok, intonly=False):
        r = self.rng
        opts = ["num"]
        ints = [n for n, t in self.scalars if t == "int"]
        nums = [n for n, t in self.scalars if t in ("int", "float")]
        if intonly:
            if ints:
                opts.append("ivar")
            iarr = [a for a in self.arrays if a[1] == "int" and not a[3]]
            if iarr:
                opts.append("iarr")
        else:
            if nums:
                opts += ["var", "var"]
            narr = [a for a in self.arrays if a[1] in ("int", "float") and not a[3]]
            if narr:
                opts.append("arr")
            if sym_ok and "templates" in self.f:
                opts += ["param", "param"]
            if reg_ok and "regrefs" in self.f:
                opts += ["reg", "reg"]
        k = r.choice(opts)
        if k == "num":
            return num(r, "int" if intonly else r.choice(["int", "float", "float"])), False
        if k == "ivar":
            return r.choice(ints), False
        if k == "var":
            return r.choice(nums), False
        if k in ("arr", "iarr"):
            a = r.choice([a for a in self.arrays if (a[1] == "int" if k == "iarr" else a[1] in ("int", "float")) and not a[3]])
            return "%s[%d]" % (a[0], r.randrange(a[2])), False
        if k == "param":
            p = r.choice(self.pool)
            if p not in self.params:
                self.params.append(p)
                self.defs.append(p)
            return "{%s}" % p, True
        if k == "reg":
            return "q%d" % r.randrange(0, 4), True
        return "1", False

    def expr(self, depth=2, sym_ok=True, reg_ok=False, intonly=False):
        """Returns (text, symbolic?)."""
        r = self.rng
        if depth <= 0 or r.random() < 0.35:
            return self.atom(sym_ok, reg_ok, intonly)
        a, sa = self.expr(depth - 1, sym_ok, reg_ok, intonly)
        k = r.random()
        if intonly:
            b, sb = self.expr(depth - 1, sym_ok, reg_ok, intonly)
            return "%s%s%s" % (a, r.choice(["+", "*", " + ", "-"]), b), False
        if k < 0.55:
            b, sb = self.expr(depth - 1, sym_ok, reg_ok)
            op = r.choice(["+", "-", "*", "/", " + ", " * "])
            if op.strip() == "/":
                b = "(%s+3.0)" % b if not sb else "2.0"
            return "%s%s%s" % (a, op, b), sa or sb
        if k < 0.65:
            return "(%s)" % a, sa
        if k < 0.72:
            return "-%s" % a, sa
        if k < 0.80:
            return "(%s)**%s" % (a, r.choice(["2", "3"])), sa
        if k < 0.92:
            if sa:
                return "(%s)" % a, True
            return "%s(%s)" % (r.choice(FUNCS_NUM), a), False
        return a, sa

    def value(self):
        """A non-symbolic value of any kind for options/kwargs."""
        r = self.rng
        k = r.random()
        if k < 0.15 and "strings" in self.f:
            return '"%s"' % r.choice(["foo", "bar", "x y", "p0"])
        if k < 0.25:
            return r.choice(["True", "False"])
        if k < 0.35 and "complex" in self.f:
            return num(r, "complex")
        return self.expr(1, sym_ok=False)[0]

    # ---- items -------------------------------------------------------------
    def item_scalar(self):
        r = self.rng
        t = r.choice(["int", "float", "float", "complex", "bool", "str"])
        if t == "complex" and "complex" not in self.f:
            t = "float"
        if t == "str" and "strings" not in self.f:
            t = "int"
        n = self.free_name()
        if t == "int":
            e = self.expr(1, sym_ok=False, intonly=True)[0]
        elif t == "float":
            e, s = self.expr(2, sym_ok=True)
        elif t == "complex":
            e = "%s*%s" % (num(r, "complex"), num(r)) if r.random() < 0.5 else num(r, "complex")
        elif t == "bool":
            e = r.choice(["True", "False"])
        else:
            e = '"%s"' % r.choice(["one", "two", "foo"])
        if t in ("int", "float"):
            self.scalars.append((n, t))
        self.defs.append(n)
        return ["%s %s = %s" % (t, n, e)]

    def item_array(self):
        r = self.rng
        t = r.choice(["int", "float", "float", "complex"])
        if t == "complex" and "complex" not in self.f:
            t = "float"
        n = self.free_name()
        rows, cols = r.randint(1, 3), r.randint(1, 3)
        haspar = False
        if "whole_array_param" in self.f and "templates" in self.f and r.random() < 0.2:
            p = r.choice(self.pool)
            self.defs += [n, p]
            self.array_params.append((p, rows, cols))
            self.arrays.append((n, t, rows * cols, True))
            return ["%s array %s[%d, %d] =" % (t, n, rows, cols), "    {%s}" % p, ""]
        lines = []
        for _ in range(rows):
            row = []
            for _ in range(cols):
                if "array_params" in self.f and "templates" in self.f and r.random() < 0.15:
                    p = r.choice(self.pool)
                    if p not in self.params:
                        self.params.append(p)
                        self.defs.append(p)
                    row.append("{%s}" % p)
                    haspar = True
                elif t == "int":
                    row.append(num(r, "int"))
                elif t == "complex":
                    row.append(num(r, "complex"))
                else:
                    row.append(r.choice(["0.5", "-1.0", "2", "0.25", "1e-1", "3.5"]))
            lines.append("    " + ", ".join(row))
        shape = "[%d, %d]" % (rows, cols) if r.random() < 0.5 else ""
        self.arrays.append((n, t, rows * cols, haspar))
        self.defs.append(n)
        return ["%s array %s%s =" % (t, n, shape)] + lines + [""]

    def item_parray(self):
        r = self.rng
        n = r.choice(PNAMES)
        if n in self.parrays:
            return self.item_scalar()
        self.parrays.append(n)
        self.defs.append(n)
        vals = ", ".join(num(r, "int") for _ in range(r.randint(1, 4)))
        return ["%s array %s =" % (r.choice(["int", "float"]), n), "    " + vals, ""]

    def modes(self, k, loopvar=None):
        r = self.rng
        ms = []
        for j in range(k):
            if loopvar and r.random() < 0.6:
                ms.append(loopvar if r.random() < 0.6 else "%s+%d" % (loopvar, j + 1))
            elif r.random() < 0.1 and [1 for n, t in self.scalars if t == "int"]:
                ms.append(r.choice([n for n, t in self.scalars if t == "int"]))
            else:
                ms.append(str(r.randrange(0, self.nmodes + 1)))
        if len(ms) == 1 and r.random() < 0.6:
            return ms[0]
        br = r.choice(["[]", "()", "[]", ""])
        inner = ", ".join(ms)
        if br:
            return br[0] + inner + br[1]
        return inner

    def args(self, loopvar=None):
        r = self.rng
        pos, kw = [], []
        for _ in range(r.choice([0, 1, 1, 2, 2, 3])):
            if loopvar and r.random() < 0.4:
                pos.append(r.choice([loopvar, "%s*0.5" % loopvar, "%s+1" % loopvar]))
            elif self.parrays and r.random() < 0.4:
                pos.append(r.choice(self.parrays))
            elif r.random() < 0.08 and "strings" in self.f:
                pos.append('"%s"' % r.choice(["lab", "x"]))
            elif r.random() < 0.1 and self.arrays and not self.arrays[-1][3]:
                pos.append(self.arrays[-1][0])
            else:
                reg = "regrefs" in self.f and r.random() < 0.3
                pos.append(self.expr(2, sym_ok=not reg, reg_ok=reg)[0])
        if "kwargs" in self.f:
            keys = r.sample(KWKEYS, r.choice([0, 0, 1, 1, 2]))
            for k in keys:
                if "lists" in self.f and r.random() < 0.25:
                    kw.append("%s=[%s]" % (k, ", ".join(self.value() for _ in range(r.randint(0, 3)))))
                elif r.random() < 0.3:
                    kw.append("%s=%s" % (k, self.value()))
                elif self.parrays and r.random() < 0.3:
                    kw.append("%s=%s" % (k, r.choice(self.parrays)))
                else:
                    reg = "regrefs" in self.f and r.random() < 0.2
                    kw.append("%s=%s" % (k, self.expr(1, sym_ok=not reg, reg_ok=reg)[0]))
        return pos, kw

    def statement(self, loopvar=None):
        r = self.rng
        k = r.random()
        if k < 0.12:
            return "%s | %s" % (r.choice(GATES0), self.modes(r.choice([1, 1, 2]), loopvar))
        if k < 0.22 and "measure" in self.f:
            g = r.choice(MEAS)
            if r.random() < 0.5:
                return "%s | %s" % (g, self.modes(1, loopvar))
            pos, kw = self.args(loopvar)
            return "%s(%s) | %s" % (g, ", ".join(kw), self.modes(r.choice([1, 2]), loopvar))
        if k < 0.30 and self.libs and not loopvar:
            return self.lib_call()
        two = r.random() < 0.3
        g = r.choice(GATES2 if two else GATES1)
        pos, kw = self.args(loopvar)
        return "%s(%s) | %s" % (g, ", ".join(pos + kw), self.modes(2 if two else 1, loopvar))

    def lib_call(self, wrong=False):
        r = self.rng
        lib = r.choice(self.libs)
        nm = lib["modes"] + (r.choice([-1, 1]) if wrong == "arity" else 0)
        ms = r.sample(range(0, 12), max(nm, 0)) if nm > 0 else [0]
        params = list(lib["params"])
        if wrong == "kw":
            params = params + ["zzz"] if r.random() < 0.5 or not params else params[:-1]
        if params:
            kws = ", ".join("%s=%s" % (p, self.expr(1, sym_ok=False)[0]) for p in params)
            return "%s(%s) | [%s]" % (lib["name"], kws, ", ".join(map(str, ms)))
        return "%s | [%s]" % (lib["name"], ", ".join(map(str, ms)))

    def item_loop(self):
        r = self.rng
        v = self.free_name()
        if self.scalars and r.random() < 0.2:
            v = r.choice(self.scalars)[0]          # shadows a variable declared earlier
        self.defs.append(v)
        t = r.choice(["int", "int", "int", "float"])
        if t == "int":
            if r.random() < 0.5:
                a = r.randint(0, 2)
                hdr = "%d:%d" % (a, a + r.randint(1, 3))
                if r.random() < 0.3:
                    hdr += ":%d" % r.randint(1, 2)
            else:
                vals = ", ".join(str(r.randint(0, 4)) for _ in range(r.randint(1, 3)))
                hdr = r.choice(["[%s]", "(%s)", "%s"]) % vals
            lv = v
        else:
            vals = ", ".join(r.choice(["0.5", "0.25", "1.5"]) for _ in range(r.randint(1, 3)))
            hdr = "[%s]" % vals
            lv = None
        lines = ["for %s %s in %s" % (t, v, hdr)]
        for _ in range(r.randint(1, 3)):
            if lv is None:
                lines.append("    %s(%s) | %s" % (r.choice(GATES1), v, self.modes(1)))
            else:
                lines.append("    " + self.statement(loopvar=lv))
        return lines

    # ---- whole script ------------------------------------------------------
    def head(self):
        r = self.rng
        h = ["name %s" % self.name, "version 1.0"]
        if r.random() < 0.5:
            t = "target %s" % r.choice(DEVICES)
            if "target_opts" in self.f and r.random() < 0.7:
                t += " (%s)" % ", ".join("%s=%s" % (k, self.value())
                                          for k in r.sample(OPTKEYS, r.randint(1, 3)))
            h.append(t)
        if "tdm" in self.f and r.random() < 0.5:
            self.tdm = True
            h.append("type tdm (temporal_modes=%d%s)" % (r.randint(1, 3), ", copies=1" if r.random() < 0.4 else ""))
        elif "type_opts" in self.f and r.random() < 0.3:
            h.append("type %s (%s=%s)" % (r.choice(["batch", "custom"]), r.choice(OPTKEYS), self.value()))
        for lib in self.libs:
            h.append('include "%s"' % lib["inc"])
            if r.random() < 0.1:
                h.append('include "%s"' % lib["inc"])
        return h

    def build(self, nitems=None):
        r = self.rng
        head = self.head()
        items = []
        n = nitems if nitems is not None else r.randint(1, self.cfg["size"])
        if self.tdm:
            for _ in range(r.randint(1, 2)):
                items.append(self.item_parray())
        for _ in range(n):
            k = r.random()
            if k < 0.04 and "fp_edge" in self.f:
                nm = self.free_name()
                self.defs.append(nm)
                self.scalars.append((nm, "float"))
                items.append(["float %s = %s" % (nm, r.choice(FP_EDGES))])
            elif k < 0.05 and "deep_expr" in self.f:
                # a long chain a+a+...+a: the parse tree is as deep as the chain is long, so
                # whether the script loads depends on the interpreter's recursion headroom -
                # process-wide state that an earlier load may have left changed.  Lengths are
                # log-uniform around the default boundary (several hundred to a thousand terms)
                # and up to a few times beyond it (a load of such a script costs up to ~0.2 s, and ten times
                # that under the line tracer of a counting dry run, hence one item in a hundred)
                import math
                nterms = int(math.exp(r.uniform(math.log(250), math.log(3600))))
                nm = self.free_name()
                self.defs.append(nm)
                self.scalars.append((nm, "float"))
                atom = r.choice(["1", "0.5", "2"])
                items.append(["float %s = %s" % (nm, "+".join([atom] * nterms))])
            elif k < 0.10 and "typed_equal" in self.f:
                # the run's one function applied to one of a few values that are equal across
                # types (-1, -1.0, -1+0j ...), directly or through a variable of that type
                t, lit = r.choice(TYPED_EQUAL[self.cfg.get("typed_group", 0)])
                fn = self.cfg.get("typed_func", "log")
                nm = self.free_name()
                self.defs.append(nm)
                lines = []
                if t == "bool" or r.random() < 0.5:
                    v = self.free_name()
                    if v == nm:
                        v = nm + "v"
                    self.defs.append(v)
                    lines.append("%s %s = %s" % (t, v, lit))
                    lit = v
                lines.append("complex %s = %s(%s)" % (nm, fn, lit))
                if r.random() < 0.5:
                    lines.append("%s(%s) | 0" % (r.choice(GATES1), nm))
                self.scalars.append((nm, "complex"))
                items.append(lines)
            elif k < 0.18 and "scalars" in self.f:
                items.append(self.item_scalar())
            elif k < 0.28 and "arrays" in self.f:
                items.append(self.item_array())
            elif k < 0.40 and "loops" in self.f:
                items.append(self.item_loop())
            else:
                items.append([self.statement()])
        return {"head": head, "items": items, "defs": list(self.defs), "tdm": self.tdm,
                "params": list(self.params), "array_params": list(self.array_params)}


def render(script):
    lines = list(script["head"]) + [""]
    for it in script["items"]:
        lines += it
    return "\n".join(lines) + "\n"


def plant_failure(rng, script, kind, pool):
    """Plant exactly one fault into an otherwise (probably) valid script. Returns a
    new script; 'late' faults go after existing items so that the tables are populated
    when the load dies."""
    s = {"head": list(script["head"]), "items": [list(i) for i in script["items"]],
         "defs": list(script["defs"]), "tdm": script.get("tdm"), "planted": kind}
    r = rng
    undefined = r.choice(["bar", "undef", "zq", "nope"])
    pos = r.choice([len(s["items"]), len(s["items"]), r.randint(0, len(s["items"]))])
    if kind == "syntax":
        if s["items"] and r.random() < 0.7:
            i = r.randrange(len(s["items"]))
            j = r.randrange(len(s["items"][i]))
            line = s["items"][i][j]
            c = r.randint(0, len(line))
            s["items"][i][j] = line[:c] + r.choice([" $ ", " | ", ")", " = = ", " ; ", "(", " 1 2 "]) + line[c:]
        else:
            s["items"].insert(pos, [r.choice(["Sgate(1, | 0", "float = 3", "Vac || 0", "for int in 3", "int array q =\n1"])])
    elif kind == "undefined":
        slot = r.choice(["pos", "kw", "list", "mode", "init", "arr", "loop"])
        line = {"pos": "Sgate(%s) | 0", "kw": "Sgate(a=%s) | 0", "list": "Sgate(l=[1, %s]) | 0",
                "mode": "Vac | %s", "init": "float zz = %s*2", "arr": "float array ZZ =\n    1, %s\n",
                "loop": "for int zi in [0, %s]\n    Vac | zi"}[slot] % undefined
        s["items"].insert(pos, line.split("\n"))
    elif kind == "reserved":
        s["items"].insert(pos, [r.choice(["int q1 = 2", "float name = 1.0", "float array version =\n    1, 2\n",
                                          "int target = 1", "float array q2 =\n    1, 2\n"])] )
        s["items"][pos] = s["items"][pos][0].split("\n")
    elif kind == "nonint_mode":
        s["items"].insert(pos, [r.choice(["Vac | 0.5", "Sgate(1) | [0, 1.5]", "Vac | 1+2j", "Vac | 2/1"])])
    elif kind == "bad_cast":
        s["items"].insert(pos, [r.choice(["int zz = 1+2j", "float zz = 2j", "float zz = 1.0+1j*2"])])
    elif kind == "loop_value":
        v = r.choice(s["defs"]) if s["defs"] and r.random() < 0.5 else r.choice(pool)
        s["defs"].append(v)
        s["items"].insert(pos, ["for int %s in [0, 1, 0.5, 2]" % v, "    Vac | %s" % v])
    elif kind == "loop_body":
        v = r.choice(s["defs"]) if s["defs"] and r.random() < 0.5 else r.choice(pool)
        s["defs"].append(v)
        s["items"].insert(pos, ["for int %s in 0:3" % v, "    Sgate(%s) | %s" % (undefined, v)])
    elif kind == "undefined_idx":
        s["items"].insert(pos, ["Sgate(%s[0]) | 0" % undefined])
    elif kind == "func_type":
        # an elementary function applied to something numpy cannot evaluate (a template
        # parameter, a measured register, a string): TypeError from inside numpy
        v = r.choice(pool)
        s["items"].insert(pos, r.choice([["float zf = %s({%s})" % (r.choice(FUNCS_NUM), v)],
                                         ["Rgate(%s(q0)) | 0" % r.choice(FUNCS_NUM)],
                                         ['str zs = "abc"', "float zf = %s(zs)" % r.choice(FUNCS_NUM)],
                                         ["Sgate(1, %s({%s}*2)) | 1" % (r.choice(FUNCS_NUM), v)]]))
    return s


SLOTS = ["target_opt", "type_opt", "pos", "kw", "list", "mode", "idx", "idx2", "loop",
         "init", "arr", "param", "tdm_opt", "inc_kw"]


def echo_probe(rng, names, pool, lib=None):
    """A script that mentions earlier-defined names in one or more syntactic slots
    without defining them.  In a pristine process every such mention is an error (or,
    for `param`, a fresh parameter); any other outcome is a leak."""
    r = rng
    names = list(names) or list(pool)
    head = ["name Echo", "version 1.0"]
    items = []
    nslots = r.choice([1, 1, 2, 3])
    slots = r.sample(SLOTS, nslots)
    # metadata slots first (evaluated before the program block)
    tgt = None
    for sl in slots:
        n = r.choice(names)
        if sl == "target_opt":
            tgt = "target %s (shots=%s)" % (r.choice(DEVICES), r.choice([n, "%s+1" % n, "2*%s" % n]))
        elif sl == "type_opt":
            head.append("type custom (copies=%s)" % n)
        elif sl == "tdm_opt":
            head.append("type tdm (temporal_modes=%s)" % n)
    if tgt:
        head.insert(2, tgt)
    if lib is not None:
        head.append('include "%s"' % lib["inc"])
    if r.random() < 0.5:
        items.append(["Vac | 0"])
    for sl in slots:
        n = r.choice(names)
        if sl == "pos":
            items.append(["Sgate(%s) | 0" % n])
        elif sl == "kw":
            items.append(["Sgate(a=%s) | 0" % n])
        elif sl == "list":
            items.append(["Sgate(l=[1, %s]) | 0" % n])
        elif sl == "mode":
            items.append(["Vac | %s" % n])
        elif sl == "idx":
            items.append(["Sgate(%s[0]) | 0" % n])
        elif sl == "idx2":
            items.append(["int array ZB =", "    1, 2", "", "Sgate(ZB[%s]) | 0" % n])
        elif sl == "loop":
            items.append(["for int zi in [0, %s]" % n, "    Vac | zi"])
        elif sl == "init":
            items.append(["float zz = %s*2" % n])
        elif sl == "arr":
            items.append(["float array ZZ =", "    1, %s" % n, ""])
        elif sl == "param":
            items.append(["Sgate({%s}, q1*{%s}) | 0" % (n, n)])
        elif sl == "inc_kw" and lib is not None and lib["params"]:
            kws = ", ".join("%s=%s" % (p, n) for p in lib["params"])
            items.append(["%s(%s) | [%s]" % (lib["name"], kws, ", ".join(map(str, range(lib["modes"]))))])
    if not items:
        items.append(["Vac | 0"])
    return {"head": head, "items": items, "defs": [], "probe": slots}


def gen_lib(rng, cfg, name, nested=None):
    """A small includable program: returns (text, info). Uses non-contiguous modes."""
    r = rng
    k = r.randint(1, 3)
    modes = r.sample(range(0, 13), k)
    params = []
    if "templates" in cfg["features"] and r.random() < 0.5:
        params = r.sample(cfg["pool"], r.randint(1, min(2, len(cfg["pool"]))))
    lines = ["name %s" % name, "version 1.0"]
    if nested:
        lines.append('include "%s"' % nested["inc"])
    lines.append("")
    body = []
    for m in modes:
        if params and r.random() < 0.7:
            p = r.choice(params)
            body.append("%s({%s}*%s) | %d" % (r.choice(GATES1), p, num(r), m))
        else:
            body.append("%s(%s) | %d" % (r.choice(GATES1), num(r), m))
    for p in params:     # every parameter is used at least once
        if not any("{%s}" % p in b for b in body):
            body.append("Rgate({%s}) | %d" % (p, modes[0]))
    if k >= 2 and r.random() < 0.6:
        body.append("BSgate(0.5, 1) | [%d, %d]" % (modes[0], modes[1]))
    if r.random() < 0.3:
        body.append("MeasureX | %d" % modes[0])
    if nested and r.random() < 0.7:
        ms = r.sample(modes, nested["modes"]) if nested["modes"] <= len(modes) else None
        if ms is not None:
            if nested["params"]:
                kws = ", ".join("%s=%s" % (p, num(r)) for p in nested["params"])
                body.append("%s(%s) | [%s]" % (nested["name"], kws, ", ".join(map(str, ms))))
            else:
                body.append("%s | [%s]" % (nested["name"], ", ".join(map(str, ms))))
    r.shuffle(body)
    return "\n".join(lines + body) + "\n", {"name": name, "modes": k, "params": params, "mode_list": modes}
