"""C19 — loading and serialising are deterministic across runs and hash seeds.

The controlled source of nondeterminism is the interpreter configuration.  K fresh
interpreters with distinct PYTHONHASHSEED values (derived from VERIF_SEED), one that
repeats the first seed as a second run on the same directories, and one that repeats it
with PYTHONOPTIMIZE=1 receive the same worlds; see DESIGN.md §4.4 and §10.4."""
import json
import os
import random
import shutil
import subprocess
import sys
import time

from . import digest as D
from . import procs
from . import gen as G
from .shrink import ddmin

PROP = "C19"
VERIF = os.path.dirname(os.path.dirname(os.path.abspath(__file__)))
OUT = os.environ.get("BBSIM_OUT_DIR", VERIF)      # evidence/ and replays/ go here
OVERLAP = ["a", "aa", "ab", "b", "p", "phi", "alpha", "s", "sq", "r", "al", "ph"]


def params_for(tier):
    if tier == "quick":
        return {"K": 15, "worlds": 800}
    return {"K": 47, "worlds": 12000}


# ---------------------------------------------------------------- worlds
def sym_expr(r, names, regs=False):
    """Rational expression over 2-4 of the given symbols."""
    k = r.randint(2, min(4, len(names)))
    use = r.sample(names, k)
    wrap = (lambda n: n) if regs else (lambda n: "{%s}" % n)
    terms = []
    for n in use:
        c = r.choice(["", "2*", "0.5*", "-", "3*"])
        terms.append(c + wrap(n))
    e = terms[0]
    for t in terms[1:]:
        op = r.choice(["+", "-", "*", " + ", "*", "/"])
        if t.startswith("-"):
            t = "(%s)" % t
        e = e + op + t
    if r.random() < 0.2:
        e = "(%s)**2" % e
    if r.random() < 0.2:
        e = "%s+%s" % (e, wrap(r.choice(use)))
    return e


def world_multi(r, wid):
    names = r.sample(OVERLAP, r.randint(2, 6))
    head = ["name multi", "version 1.0"]
    if r.random() < 0.3:
        head.append("target gaussian (shots=10)")
    items = []
    for _ in range(r.randint(1, 5)):
        k = r.random()
        if k < 0.45:
            pos = [sym_expr(r, names) if r.random() < 0.7 else G.num(r) for _ in range(r.randint(1, 3))]
            kw = []
            if r.random() < 0.4:
                kw.append("phi=%s" % sym_expr(r, names))
            items.append(["%s(%s) | %d" % (r.choice(G.GATES1), ", ".join(pos + kw), r.randrange(4))])
        elif k < 0.65:
            regs = ["q%d" % i for i in r.sample(range(0, 12), r.randint(2, 4))]
            pos = [sym_expr(r, regs, regs=True)]
            if r.random() < 0.3:
                pos.append(G.num(r))
            kw = ["a=%s" % sym_expr(r, regs, regs=True)] if r.random() < 0.3 else []
            items.append(["MeasureX | %d" % r.randrange(4)])
            items.append(["%s(%s) | %d" % (r.choice(G.GATES1), ", ".join(pos + kw), r.randrange(4))])
        elif k < 0.78:
            items.append(["float v%d = %s" % (len(items), sym_expr(r, names))])
            items.append(["Rgate(v%d) | 0" % (len(items) - 1)])
        elif k < 0.88:
            row = ", ".join("{%s}" % n if r.random() < 0.6 else G.num(r) for n in r.sample(names, min(3, len(names))))
            items.append(["float array M%d =" % len(items), "    " + row, ""])
        else:
            items.append(["%s(%s) | [%d, %d]" % (r.choice(G.GATES2), sym_expr(r, names), 0, 1)])
    return {"id": wid, "kind": "multi", "script": {"head": head, "items": items}}


NONDYADIC = ["0.1", "0.2", "0.3", "0.7", "1.1", "2.3", "1e-3", "0.6", "4.7"]


def world_include(r, wid):
    nm = r.randint(2, 4)
    modes = r.sample([1, 3, 7, 8, 9, 12, 16, 17, 24, 32, 33], nm)
    names = r.sample(OVERLAP, r.randint(0, 4))
    lines = ["name Sub", "version 1.0", ""]
    for m in modes:
        k = r.random()
        if len(names) >= 3 and k < 0.4:
            # a plain sum over three or four parameters (float addition is not associative:
            # the value depends on the order in which the terms are accumulated)
            use = r.sample(names, r.randint(3, len(names)))
            e = "+".join(r.choice(["{%s}", "{%s}", "2*{%s}", "0.5*{%s}"]) % n for n in use)
            lines.append("%s(%s) | %d" % (r.choice(G.GATES1), e, m))
        elif names and k < 0.75:
            lines.append("%s(%s) | %d" % (r.choice(G.GATES1), sym_expr(r, names) if len(names) > 1 else "{%s}" % names[0], m))
        else:
            lines.append("%s(%s) | %d" % (r.choice(G.GATES1), G.num(r), m))
    for n in names:
        if not any("{%s}" % n in l for l in lines):
            lines.append("Rgate({%s}) | %d" % (n, modes[0]))
    lines.append("BSgate(0.5) | [%d, %d]" % (modes[0], modes[1]))
    if r.random() < 0.5:
        # measured registers inside the included program: a transform over several of its
        # own registers (copied or re-instantiated at every call, and still to be paired
        # with its function whatever happens to it on the way)
        regs = ["q%d" % m for m in r.sample(modes, r.randint(2, min(3, nm)))]
        lines.append("MeasureX | %d" % modes[0])
        for _ in range(r.randint(1, 2)):
            e = sym_expr(r, regs, regs=True)
            if r.random() < 0.4:
                e = "%s/%s" % (regs[0], regs[1]) if r.random() < 0.5 else "%s**%s" % (regs[-1], regs[0])
            kw = ", phi=%s" % sym_expr(r, regs, regs=True) if r.random() < 0.3 else ""
            lines.append("%s(%s%s) | %d" % (r.choice(G.GATES1), e, kw, r.choice(modes)))
    files = {"lib/sub.xbb": "\n".join(lines) + "\n"}
    head = ["name Main", "version 1.0", 'include "<ROOT>/lib/sub.xbb"']
    items = []
    for _ in range(r.randint(1, 2)):
        ms = r.sample(range(0, 9), nm)
        if names:
            items.append(["Sub(%s) | [%s]" % (", ".join("%s=%s" % (n, r.choice(NONDYADIC) if r.random() < 0.7 else G.num(r))
                                                        for n in names),
                                              ", ".join(map(str, ms)))])
        else:
            items.append(["Sub | [%s]" % ", ".join(map(str, ms))])
    if r.random() < 0.5:
        # the same world delivered as files: main loaded by (relative) path from another
        # working directory, include spelled relative to the including file, and a second
        # library nested inside the first
        inner = ["name Inner", "version 1.0", ""] + ["Kgate(%s) | %d" % (G.num(r), m) for m in r.sample([2, 9, 11, 40], 2)]
        files["lib/deep/inner.xbb"] = "\n".join(inner) + "\n"
        sub = files["lib/sub.xbb"].split("\n")
        sub.insert(2, 'include "deep/inner.xbb"')
        sub.append("Inner | [%d, %d]" % (modes[1], modes[0]))
        files["lib/sub.xbb"] = "\n".join(sub) + "\n"
        head2 = ["name Main", "version 1.0", 'include "../lib/sub.xbb"']
        if r.random() < 0.5:
            items = items + [["Inner | [%d, %d]" % tuple(r.sample(range(0, 9), 2))]]
        script = {"head": head2, "items": items}
        files["app/main.xbb"] = G.render(script)
        return {"id": wid, "kind": "include_files", "files": files, "path": "app/main.xbb",
                "style": r.choice(["rel", "abs"]), "cwd": r.choice(["other", "app", ""]), "script": script}
    return {"id": wid, "kind": "include", "files": files, "script": {"head": head, "items": items}}


def world_arrays(r, wid):
    """Programs (tdm and plain) that declare arrays under the names the serialiser itself
    uses for hoisted array arguments (A0, A1, ...) and pass arrays to operations."""
    tdm = r.random() < 0.6
    head = ["name arr", "version 1.0"]
    if tdm:
        head.append("type tdm (temporal_modes=%d)" % r.randint(1, 3))
    names = r.sample(["A0", "A1", "A2", "A", "U", "M", "B0"], r.randint(1, 3))
    items = []
    for n in names:
        rows, cols = r.randint(1, 2), r.randint(1, 3)
        t = r.choice(["float", "float", "int", "complex"])
        items.append(["%s array %s[%d, %d] =" % (t, n, rows, cols)] +
                     ["    " + ", ".join(G.num(r, t if t != "float" else "float") for _ in range(cols)) for _ in range(rows)] + [""])
    if tdm:
        for pn in r.sample(["p0", "p1", "p2"], r.randint(1, 2)):
            items.append(["float array %s =" % pn, "    " + ", ".join(G.num(r) for _ in range(r.randint(1, 3))), ""])
            items.append(["%s(%s, 0.0) | %d" % (r.choice(G.GATES1), pn, r.randrange(2))])
    for n in names:
        if r.random() < 0.7:
            items.append(["Interferometer(%s) | [0, 1]" % n])
        else:
            items.append(["%s(%s, k=%s) | %d" % (r.choice(G.GATES1), G.num(r), n, r.randrange(2))])
    return {"id": wid, "kind": "arrays", "script": {"head": head, "items": items}}


def world_wild(r, wid):
    cfg = G.swarm(r)
    cfg["pool"] = r.sample(OVERLAP, r.randint(2, 8))
    for f in ("templates", "regrefs", "kwargs", "scalars"):
        if f not in cfg["features"] and r.random() < 0.7:
            cfg["features"].append(f)
    cfg["size"] = r.choice([3, 6, 12, 30])
    s = G.ScriptGen(r, cfg).build()
    return {"id": wid, "kind": "wild", "script": {"head": s["head"], "items": s["items"]}}


def gen_world(seed, wid):
    r = random.Random("C19:%d:%d" % (seed, wid))
    k = r.random()
    if k < 0.45:
        return world_multi(r, wid)
    if k < 0.62:
        return world_include(r, wid)
    if k < 0.67:
        return world_arrays(r, wid)
    return world_wild(r, wid)


# ---------------------------------------------------------------- servers
def hash_seeds(seed, K):
    r = random.Random("C19-hashseeds:%d" % seed)
    out = []
    while len(out) < K:
        h = r.randrange(1, 4294967295)
        if h not in out:
            out.append(h)
    return out


def _cfg(c):
    return c if isinstance(c, dict) else {"hashseed": int(c)}


def cfg_text(c):
    c = _cfg(c)
    return "PYTHONHASHSEED=%d%s" % (c["hashseed"], " PYTHONOPTIMIZE=1" if c.get("optimize") else "")


_CHILDREN = []


def _kill_children(*_a):
    for p in list(_CHILDREN):
        try:
            os.killpg(p.pid, 9)
        except OSError:
            try:
                p.kill()
            except OSError:
                pass
    if _a:                      # called as a signal handler
        os._exit(2)


def run_servers(worlds, hseeds, workdir, parallel=16, timeout=3000, after=None):
    """Run one fresh interpreter per hash seed over the same worlds. Returns
    {label: [result per world]}; label = index in hseeds (seeds may repeat).
    after = {j: i}: interpreter j starts only when interpreter i has finished and then
    inherits i's private HOME/temp/cache directories ("the second run on one machine")."""
    after = after or {}
    os.makedirs(workdir, exist_ok=True)
    wpath = os.path.join(workdir, "worlds.jsonl")
    with open(wpath, "w") as f:
        for w in worlds:
            f.write(json.dumps(w) + "\n")
    hseeds = [_cfg(c) for c in hseeds]
    pending = list(enumerate(hseeds))
    running = []
    results = {}
    done = set()
    errors = []
    t_end = time.monotonic() + timeout
    while pending or running:
        for (i, h) in list(pending):
            if len(running) >= parallel:
                break
            if i in after and after[i] not in done:
                if after[i] not in [x[0] for x in running] and after[i] not in [x[0] for x in pending]:
                    done.add(after[i])      # predecessor failed; do not wait for ever
                continue
            pending.remove((i, h))
            env = dict(os.environ)
            env["PYTHONHASHSEED"] = str(h["hashseed"])
            env["PYTHONDONTWRITEBYTECODE"] = "1"
            env.pop("PYTHONOPTIMIZE", None)
            if h.get("optimize"):
                env["PYTHONOPTIMIZE"] = "1"
            env["BBSIM_C19_PARENT"] = str(os.getpid())
            out = os.path.join(workdir, "out.%d.jsonl" % i)
            priv = os.path.join(workdir, "priv.%03d" % after.get(i, i))
            os.makedirs(priv, exist_ok=True)
            errf = open(os.path.join(workdir, "err.%d.txt" % i), "wb")
            p = subprocess.Popen([sys.executable, "-m", "bbsim.c19server", wpath, out, priv], cwd=VERIF, env=env,
                                 stdout=subprocess.DEVNULL, stderr=errf, start_new_session=True)
            errf.close()
            _CHILDREN.append(p)
            running.append((i, h, p, out))
        time.sleep(0.05)
        still = []
        for (i, h, p, out) in running:
            rc = p.poll()
            if rc is None:
                if time.monotonic() > t_end:
                    p.kill()
                    errors.append("interpreter %d (%s) timed out" % (i, cfg_text(h)))
                    done.add(i)
                else:
                    still.append((i, h, p, out))
                continue
            done.add(i)
            if p in _CHILDREN:
                _CHILDREN.remove(p)
            with open(os.path.join(workdir, "err.%d.txt" % i), "rb") as ef:
                err = ef.read()[-4000:].decode("utf-8", "replace")
            if rc != 0:
                errors.append("interpreter %d (%s) exited %d: %s" % (i, cfg_text(h), rc, err[-800:]))
                continue
            with open(out) as f:
                results[i] = [json.loads(l) for l in f]
        running = still
    return results, errors


def line_of(r):
    """The compared observable of one world in one interpreter.  The statement quantifies
    over valid scripts: for a script that does not load only the fact that it does not is
    compared, not the exception type (which a correct implementation may well choose in
    set order)."""
    if not isinstance(r.get("load"), str):
        return ["load failed"]
    return [r.get("load"), r.get("dumps"), r.get("dumps_unstable"), bool(r.get("pair_bad"))]


def compare(worlds, results, hseeds):
    viol = []
    stats = {"order_differed": 0, "rrt_worlds": 0, "rrt_total": 0, "loaded": 0, "failed_load": 0,
             "dumps_failed": 0}
    labels = sorted(results)
    for j, w in enumerate(worlds):
        rs = {i: results[i][j] for i in labels}
        for i, r in rs.items():
            if "harness_error" in r:
                raise RuntimeError("interpreter %d: %s" % (i, r["harness_error"]))
        first = rs[labels[0]]
        if isinstance(first.get("load"), str):
            stats["loaded"] += 1
        else:
            stats["failed_load"] += 1
        if first.get("dumps", [""])[0] == "exc":
            stats["dumps_failed"] += 1
        if first.get("rrt"):
            stats["rrt_worlds"] += 1
            stats["rrt_total"] += first["rrt"]
        if len(set(r.get("raw") for r in rs.values())) > 1:
            stats["order_differed"] += 1
        lines = {i: json.dumps(line_of(r)) for i, r in rs.items()}
        # an interpreter running with assertions stripped is compared only on scripts
        # that are valid for the reference interpreter (assert-based input validation is
        # legitimate; it can only differ on invalid scripts)
        if not isinstance(first.get("load"), str) or (first.get("dumps") or ["exc"])[0] != "text":
            lines = {i: l for i, l in lines.items() if not _cfg(hseeds[i]).get("optimize")}
        for i, r in rs.items():
            if r.get("pair_bad"):
                viol.append({"inv": "D2", "world": j, "a": i, "b": i,
                             "detail": "register/function pairing broken under %s: %s"
                                       % (cfg_text(hseeds[i]), "; ".join(r["pair_bad"])[:300])})
                break
        if len(set(lines.values())) > 1:
            a = labels[0]
            b = [i for i in labels if i in lines and lines[i] != lines[a]][0]
            what = "serialisation" if rs[a].get("load") == rs[b].get("load") else "program content"
            viol.append({"inv": "D1", "world": j, "a": a, "b": b,
                         "detail": "%s differs between %s and %s: %s | %s" %
                                   (what, cfg_text(hseeds[a]), cfg_text(hseeds[b]), _short(rs[a]), _short(rs[b]))})
    return viol, stats


def _short(r):
    d = r.get("dumps")
    return ("load=%s dumps=%r%s" % (r.get("load"), d[1] if d else None,
                                   " unstable" if r.get("dumps_unstable") else ""))[:400]


# ---------------------------------------------------------------- minimise / replay
def still_differs(world, ha, hb, workdir, inv):
    shutil.rmtree(workdir, ignore_errors=True)        # fresh private directories per trial
    res, errs = run_servers([world], [ha, hb], workdir, parallel=2, timeout=120,
                            after={1: 0} if _cfg(ha) == _cfg(hb) else None)
    if errs or 0 not in res or 1 not in res:
        return False
    if inv == "D2":
        return bool(res[0][0].get("pair_bad") or res[1][0].get("pair_bad"))
    return json.dumps(line_of(res[0][0])) != json.dumps(line_of(res[1][0]))


def minimise(world, ha, hb, workdir, inv, budget=90):
    import copy
    deadline = time.monotonic() + budget
    w = copy.deepcopy(world)

    def test(items):
        c = copy.deepcopy(w)
        c["script"]["items"] = items
        return still_differs(c, ha, hb, workdir, inv)
    if len(w["script"]["items"]) > 1:
        w["script"]["items"] = ddmin(w["script"]["items"], test, deadline)
    j = len(w["script"]["head"]) - 1
    while j >= 2 and time.monotonic() < deadline:
        c = copy.deepcopy(w)
        del c["script"]["head"][j]
        if still_differs(c, ha, hb, workdir, inv):
            w = c
        j -= 1
    return w


def replay(path):
    with open(path) as f:
        doc = json.load(f)
    wd = os.path.join(procs.scratch_top(), "c19.%07d" % os.getpid())
    try:
        ha, hb = doc.get("configs") or doc["hashseeds"]
        res, errs = run_servers([dict(doc["world"], verbose=True)], [ha, hb], wd, parallel=2, timeout=300,
                                after={1: 0} if _cfg(ha) == _cfg(hb) else None)
        if errs:
            print("HARNESS-ERROR " + "; ".join(errs))
            return 2
        a, b = res[0][0], res[1][0]
        print(json.dumps({"a": line_of(a), "b": line_of(b), "pair_bad": [a.get("pair_bad"), b.get("pair_bad")]})[:3000])
        if json.dumps(line_of(a)) != json.dumps(line_of(b)) or a.get("pair_bad") or b.get("pair_bad"):
            print("VIOLATION property=%s replay=%s" % (PROP, path))
            return 1
        return 0
    finally:
        shutil.rmtree(wd, ignore_errors=True)


# ---------------------------------------------------------------- main
def main(a, seed):
    from .runner import load_known, match_known
    if a.replay:
        return replay(a.replay)
    t0 = time.monotonic()
    tier = a.tier
    pr = params_for(tier)
    n = a.runs or pr["worlds"]
    if os.environ.get("VERIF_BUDGET_S"):
        n = max(50, int(n * float(os.environ["VERIF_BUDGET_S"]) / (60 if tier == "quick" else 600)))
    K = pr["K"]
    hs = hash_seeds(seed, K)
    # interpreter K repeats the first seed as a second run on the same machine (run-to-run
    # nondeterminism); interpreter K+1 repeats it with assertions stripped (PYTHONOPTIMIZE)
    hs_all = [{"hashseed": h} for h in hs] + [{"hashseed": hs[0]}, {"hashseed": hs[0], "optimize": True}]
    worlds = [gen_world(seed, i) for i in range(n)]
    procs.cleanup_stale()
    wd = os.path.join(procs.scratch_top(), "c19.%07d" % os.getpid())
    shutil.rmtree(wd, ignore_errors=True)
    import signal
    for sg in (signal.SIGTERM, signal.SIGINT, signal.SIGHUP):
        signal.signal(sg, _kill_children)
    harness = []
    try:
        results, errs = run_servers(worlds, hs_all, wd, parallel=a.workers, after={len(hs) : 0})
        harness += errs
        if len(results) < len(hs_all):
            viol, stats = [], {}
        else:
            try:
                viol, stats = compare(worlds, results, hs_all)
            except RuntimeError as e:
                harness.append(str(e))
                viol, stats = [], {}
        known = load_known()
        reported = []
        known_hits = []
        seen_kinds = set()
        for v in viol:
            k = match_known(PROP, v, known)
            if k:
                known_hits.append(k)
                continue
            if len(reported) >= 4:
                reported.append((v, None))
                continue
            w = worlds[v["world"]]
            ha, hb = hs_all[v["a"]], hs_all[v["b"]]
            if v["inv"] == "D1" and _cfg(ha) == _cfg(hb):
                v["detail"] = ("same hash seed, second run after the first on the same machine gives a different "
                               "result (run-to-run nondeterminism): " + v["detail"])
            small = minimise(w, ha, hb, os.path.join(wd, "min"), v["inv"])
            os.makedirs(os.path.join(OUT, "replays"), exist_ok=True)
            path = os.path.join(OUT, "replays", "C19-%d-%d.json" % (seed, v["world"]))
            with open(path, "w") as f:
                json.dump({"property": PROP, "seed": seed, "world": small, "configs": [_cfg(ha), _cfg(hb)],
                           "violation": v, "original_items": len(w["script"]["items"]),
                           "minimised_items": len(small["script"]["items"])}, f, indent=1)
            # confirm in two brand-new interpreters
            if still_differs(small, ha, hb, os.path.join(wd, "confirm"), v["inv"]):
                reported.append((v, path))
            else:
                harness.append("world %d: violation %s did not reproduce in fresh interpreters" % (v["world"], v["inv"]))
    finally:
        _kill_children()
        shutil.rmtree(wd, ignore_errors=True)
    wall = time.monotonic() - t0
    texts = set(json.dumps(w.get("script")) + json.dumps(w.get("files", {})) for w in worlds)
    nontriv = set()
    for j, w in enumerate(worlds):
        if results and len(results) == len(hs_all):
            r0 = results[0][j]
            if isinstance(r0.get("load"), str) and (r0.get("rrt") or "{" in json.dumps(w["script"]) or w.get("files")):
                nontriv.add(json.dumps(w.get("script")) + json.dumps(w.get("files", {})))
    ev = {
        "property_id": PROP, "tier": tier, "seed": seed, "level": "exploration",
        "coverage": {
            "evaluations": len(worlds) * len(hs_all),
            "worlds": len(worlds),
            "interpreters": len(hs_all),
            "interpreter_configurations": [cfg_text(c) for c in hs_all],
            "distinct_nontrivial": len(nontriv),
            "distinct_worlds": len(texts),
            "rule": "worlds (script text plus optional include tree) are drawn by a seeded PRNG biased to "
                    "arguments over 2-4 template parameters with overlapping names, 2-4 measured registers, "
                    "includes on several modes called repeatedly, and large mixed scripts; every world is "
                    "executed in every interpreter; a world is distinct by its text and non-trivial when it "
                    "loads and contains a template parameter, a register transform or an include",
            "samples": [worlds[i] for i in range(min(3, len(worlds)))],
            "worlds_where_iteration_order_differed": stats.get("order_differed", 0),
            "counters": stats,
            "runs_per_hour": int(len(worlds) * len(hs_all) / wall * 3600) if wall else 0,
            "seeds_per_hour": "%d hash seeds per batch (%.0f s)" % (len(hs), wall),
            "simulated_time": "n/a (the system reads no clock)",
            "fault_kinds": {"hash_seed_change": {"configured": len(hs) - 1,
                                                 "fired_worlds_with_different_iteration_order": stats.get("order_differed", 0)},
                            "second_run_same_seed_same_directories": {"configured": 1, "fired": 1},
                            "assertions_stripped_PYTHONOPTIMIZE": {"configured": 1, "fired": 1}},
            "components": {"real": ["blackbird (working tree)", "antlr4", "sympy", "numpy", "CPython string hashing",
                                    "kernel file system (tmpfs)"], "stubs": []},
            "known_findings_hit": len(known_hits),
            "harness_errors": harness[:5],
        },
        "assumptions": ["PYTHONHASHSEED is the only run-to-run nondeterminism of CPython that reaches these outputs",
                        "messages of exceptions are not compared (they may legitimately print a set)"],
        "wall_s": round(wall, 2),
        "violations": len(reported),
    }
    os.makedirs(os.path.join(OUT, "evidence"), exist_ok=True)
    with open(os.path.join(OUT, "evidence", "C19.json"), "w") as f:
        json.dump(ev, f, indent=1)
    print("C19 tier=%s seed=%d worlds=%d interpreters=%d order_differed=%d rrt=%d wall=%.1fs" %
          (tier, seed, len(worlds), len(hs_all), stats.get("order_differed", 0), stats.get("rrt_total", 0), wall))
    done = set()
    for k in known_hits:
        if k["what"] not in done:
            done.add(k["what"])
            print("KNOWN-FINDING: property=C19 %s" % k["what"])
    for v, path in reported:
        if path:
            print("VIOLATION property=C19 replay=%s" % path)
            print("  %s: %s" % (v["inv"], v["detail"][:600]))
    more = len([1 for v, p in reported if p is None])
    if more:
        print("  (+%d further violating worlds not minimised)" % more)
    for h in harness[:10]:
        print("HARNESS-ERROR " + h[:800])
    if [1 for v, p in reported if p]:
        return 1
    if harness or not stats:
        return 2
    if stats.get("order_differed", 0) == 0:
        print("HARNESS-ERROR ineffective: no world saw a different iteration order under the sampled hash seeds")
        return 2
    return 0
