"""C19 world server: one fresh interpreter with a fixed PYTHONHASHSEED.  Reads worlds
(JSON lines) from a file, executes each against the real package, writes one result
line per world.  Usage: python -m bbsim.c19server WORLDS OUT"""
import copy
import json
import os
import sys

from . import digest as D
from . import child, procs, zygote


def raw_orders(prog):
    """Reach probe only: the raw iteration orders this interpreter happened to use."""
    import sympy as sym
    out = []
    for op in prog.operations:
        vals = list(op.get("args", [])) + list(op.get("kwargs", {}).values())
        for v in vals:
            if type(v).__name__ == "RegRefTransform":
                out.append(["r"] + [int(x) for x in v.regrefs])
            elif isinstance(v, sym.Expr):
                out.append(["s"] + [str(x) for x in v.free_symbols])
    for v in prog.variables.values():
        if isinstance(v, sym.Expr):
            out.append(["v"] + [str(x) for x in v.free_symbols])
    out.append(["p"] + [str(x) for x in prog.parameters])
    return out


def pairing(prog):
    bad = []
    n = 0
    for i, op in enumerate(prog.operations):
        vals = list(op.get("args", [])) + list(op.get("kwargs", {}).values())
        for v in vals:
            if type(v).__name__ == "RegRefTransform":
                n += 1
                ok, why = D.rrt_pairing(v)
                if not ok:
                    bad.append("operation %d (%s): %s" % (i, op.get("op"), why))
    return n, bad


def run_world(bb, w, root, scratch):
    child.reset_root(root)
    os.chdir(root)
    for path, text in w.get("files", {}).items():
        if path == w.get("path") and "script" in w:
            text = child.step_text(w)        # the (possibly minimised) main script
        child._write_file(os.path.join(root, path), text.replace("<ROOT>", root).encode("latin-1"))
    if w.get("cwd"):
        os.makedirs(os.path.join(root, w["cwd"]), exist_ok=True)
        os.chdir(os.path.join(root, w["cwd"]))
    res = {"id": w["id"]}
    try:
        if "path" in w:
            p = os.path.join(root, w["path"])
            if w.get("style") == "rel":
                p = os.path.relpath(p, os.getcwd())
            prog = bb.load(p)
        else:
            prog = bb.loads(child.step_text(w).replace("<ROOT>", root))
    except Exception as e:
        res["load"] = ["exc", type(e).__name__]
        return res
    res["load"] = D.sha(D.render_program(prog, root))
    res["content"] = D.render_program(prog, root) if w.get("verbose") else None
    try:
        res["dumps"] = ["text", bb.dumps(prog).replace(root, "<ROOT>")]
    except Exception as e:
        res["dumps"] = ["exc", type(e).__name__]
    # serialising twice and serialising a copy must give the same text in one run, too
    try:
        again = bb.dumps(copy.deepcopy(prog)).replace(root, "<ROOT>")
        if res["dumps"][0] == "text" and again != res["dumps"][1]:
            res["dumps_unstable"] = again
    except Exception:
        pass
    n, bad = pairing(prog)
    res["rrt"] = n
    res["pair_bad"] = bad
    res["raw"] = D.sha(raw_orders(prog))
    return res


def main(argv):
    worlds_path, out_path = argv[0], argv[1]
    bb = zygote.import_blackbird()
    if len(argv) > 2:
        # the controller owns the root, HOME, temp and cache directories: one private
        # set per interpreter; the interpreter that REPEATS a hash seed runs after the
        # first one finished and inherits its directories and paths (a second run of the
        # same thing on the same machine)
        d = argv[2]
        root, scratch = os.path.join(d, "root"), os.path.join(d, "env")
        os.makedirs(root, exist_ok=True)
        child.private_env(scratch, wipe=False)
    else:
        root, scratch, d = procs.worker_dirs()
    try:
        with open(worlds_path) as f, open(out_path, "w") as out:
            parent = int(os.environ.get("BBSIM_C19_PARENT", "0"))
            for line in f:
                if parent and os.getppid() != parent:
                    return 3          # the controller is gone: do not linger as an orphan
                w = json.loads(line)
                try:
                    r = run_world(bb, w, root, scratch)
                except Exception as e:   # harness-level
                    r = {"id": w["id"], "harness_error": "%s: %s" % (type(e).__name__, e)}
                out.write(json.dumps(r) + "\n")
    finally:
        os.chdir("/")
        if len(argv) <= 2:
            import shutil
            shutil.rmtree(d, ignore_errors=True)
    return 0


if __name__ == "__main__":
    sys.exit(main(sys.argv[1:]))
