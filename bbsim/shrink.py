"""Minimisation of failing plans: ddmin over steps, then over script items / header
lines / file lines, then fault removal.  A candidate is accepted only if the SAME
violation class (same invariant id) persists.  Bounded by a wall-clock budget."""
import copy
import time


def ddmin(items, test, deadline):
    """Classic ddmin. test(list)->bool (True = still fails)."""
    n = 2
    items = list(items)
    while len(items) >= 2 and time.monotonic() < deadline:
        chunk = max(1, len(items) // n)
        subsets = [items[i:i + chunk] for i in range(0, len(items), chunk)]
        reduced = False
        for i in range(len(subsets)):
            if time.monotonic() >= deadline:
                break
            comp = [x for j, s in enumerate(subsets) if j != i for x in s]
            if comp and test(comp):
                items = comp
                n = max(n - 1, 2)
                reduced = True
                break
        if not reduced:
            if chunk == 1:
                break
            n = min(n * 2, len(items))
    return items


class Shrinker:
    def __init__(self, plan, fails, budget_s):
        self.plan = copy.deepcopy(plan)
        self.fails = fails
        self.deadline = time.monotonic() + budget_s
        self.tests = 0

    def alive(self):
        return time.monotonic() < self.deadline

    def attempt(self, mutate):
        if not self.alive():
            return False
        cand = copy.deepcopy(self.plan)
        try:
            mutate(cand)
        except (IndexError, KeyError):
            return False
        self.tests += 1
        if self.fails(cand):
            self.plan = cand
            return True
        return False

    def min_list(self, getter, setter):
        """ddmin a list living inside the plan."""
        cur = getter(self.plan)
        if not cur:
            return

        def test(items):
            cand = copy.deepcopy(self.plan)
            setter(cand, items)
            self.tests += 1
            if self.fails(cand):
                return True
            return False
        if len(cur) == 1:
            if test([]):
                setter(self.plan, [])
            return
        res = ddmin(cur, test, self.deadline)
        setter(self.plan, res)
        if len(res) == 1 and self.alive() and test([]):
            setter(self.plan, [])

    def run(self):
        self.min_list(lambda p: p["steps"], lambda p, v: p.__setitem__("steps", v))
        # faults not needed
        for i in range(len(self.plan["steps"])):
            if self.plan["steps"][i].get("fault"):
                self.attempt(lambda c, i=i: c["steps"][i].pop("fault"))
        for i in range(len(self.plan["steps"])):
            st = self.plan["steps"][i]
            if isinstance(st.get("script"), dict):
                self.min_list(lambda p, i=i: p["steps"][i]["script"]["items"],
                              lambda p, v, i=i: p["steps"][i]["script"].__setitem__("items", v))
                j = len(self.plan["steps"][i]["script"]["head"]) - 1
                while j >= 2:
                    self.attempt(lambda c, i=i, j=j: c["steps"][i]["script"]["head"].pop(j))
                    j -= 1
                items = self.plan["steps"][i]["script"]["items"]
                for k in range(len(items)):
                    for l in range(len(items[k]) - 1, 0, -1):
                        if len(self.plan["steps"][i]["script"]["items"][k]) > 2:
                            self.attempt(lambda c, i=i, k=k, l=l: c["steps"][i]["script"]["items"][k].pop(l))
            if st["op"] == "write" and isinstance(st.get("text"), str):
                lines = st["text"].split("\n")
                if len(lines) > 3:
                    self.min_list(lambda p, i=i: p["steps"][i]["text"].split("\n")[2:],
                                  lambda p, v, i=i: p["steps"][i].__setitem__(
                                      "text", "\n".join(p["steps"][i]["text"].split("\n")[:2] + v)))
            if isinstance(st.get("prog"), dict):
                # C07 data model: statements of the body, loop bodies, include lines
                self.min_list(lambda p, i=i: p["steps"][i]["prog"]["body"],
                              lambda p, v, i=i: p["steps"][i]["prog"].__setitem__("body", v))
                body = self.plan["steps"][i]["prog"]["body"]
                for k in range(len(body)):
                    if body[k].get("k") == "loop":
                        self.min_list(lambda p, i=i, k=k: p["steps"][i]["prog"]["body"][k]["body"],
                                      lambda p, v, i=i, k=k: p["steps"][i]["prog"]["body"][k].__setitem__("body", v) if v else None)
                        if not body[k].get("range"):
                            self.min_list(lambda p, i=i, k=k: p["steps"][i]["prog"]["body"][k]["vals"],
                                          lambda p, v, i=i, k=k: p["steps"][i]["prog"]["body"][k].__setitem__("vals", v) if v else None)
                self.min_list(lambda p, i=i: p["steps"][i]["prog"]["includes"],
                              lambda p, v, i=i: p["steps"][i]["prog"].__setitem__("includes", v))
                self.attempt(lambda c, i=i: c["steps"][i]["prog"].__setitem__("comments", False))
                self.attempt(lambda c, i=i: c["steps"][i]["prog"].__setitem__("target", None))
        # a second pass over steps often removes steps that only mattered to dropped lines
        self.min_list(lambda p: p["steps"], lambda p, v: p.__setitem__("steps", v))
        return self.plan


def shrink_plan(plan, fails, budget_s=60.0):
    return Shrinker(plan, fails, budget_s).run()
