"""Plan executor.  Runs inside a forked child of the zygote (history process H, or a
pristine process P that replays only the environment steps and one load)."""
import copy
import os
import shutil
import sys

from . import digest as D
from . import zygote
from .faults import IOFaults, Interrupt, faulted_bytes
from .gen import render as render_script

ENV_OPS = ("write", "unlink", "chdir", "mkdir", "symlink")
LOAD_OPS = ("load", "loads")


def _subst(text, root):
    return text.replace("<ROOT>", root)


def step_text(st):
    if "text" in st:
        return st["text"]
    if "prog" in st:
        from . import model07
        return model07.render(st["prog"])
    return render_script(st["script"])


def resolve_fault(fault, written):
    """Turn symbolic fault positions (after_item / comment) into line/col using the
    data model of the file as last written."""
    if not fault or fault.get("kind") != "io":
        return fault
    if "after_item" not in fault and "comment" not in fault:
        return fault
    from . import model07
    st = written.get(os.path.normpath(fault.get("path", "")))
    f = dict(fault)
    if st is None:
        f["what"] = "none"
        return f
    if "after_item" in fault and "prog" in st:
        f["line"] = model07.tear_line(st["prog"], fault["after_item"])
        f["col"] = 0
        return f
    text = step_text(st)
    k = int(fault.get("comment", 0))
    pos = -1
    for _ in range(k + 1):
        pos = text.find("#", pos + 1)
        if pos < 0:
            f["what"] = "none"
            return f
    pos += 1   # the byte after '#'
    if pos >= len(text) or text[pos] == "\n":
        f["what"] = "none"
        return f
    before = text[:pos]
    f["line"] = before.count("\n")
    f["col"] = len(before) - (before.rfind("\n") + 1)
    return f


_LAST_MTIME = {}


def _write_file(path, data):
    """Write a simulated file.  Two different contents of one path never share a
    modification time, whatever the granularity of the kernel's timestamps (a flipped byte
    keeps size and inode; only the mtime tells the flipped file from the restored one, and a
    correct cache validated by stat must be able to rely on it)."""
    os.makedirs(os.path.dirname(path), exist_ok=True)
    fd = os.open(path, os.O_WRONLY | os.O_CREAT | os.O_TRUNC, 0o644)
    try:
        os.write(fd, data)
    finally:
        os.close(fd)
    st = os.stat(path)
    new = max(st.st_mtime_ns, _LAST_MTIME.get(path, 0) + 1000)
    if new != st.st_mtime_ns:
        os.utime(path, ns=(st.st_atime_ns, new))
    _LAST_MTIME[path] = new


def reset_root(root):
    if os.path.isdir(root):
        for n in os.listdir(root):
            p = os.path.join(root, n)
            if os.path.isdir(p) and not os.path.islink(p):
                shutil.rmtree(p, ignore_errors=True)
            else:
                try:
                    os.unlink(p)
                except OSError:
                    pass
    else:
        os.makedirs(root, exist_ok=True)


def private_env(scratch, wipe=True):
    """Own the places where a process could persist state outside the simulated root:
    HOME, the temp directory and the XDG cache/config/data directories all point into
    this child's scratch directory, which is emptied first.  A pristine process thus
    starts with a pristine disk as well."""
    import tempfile
    if wipe:
        reset_root(scratch)
    home = os.path.join(scratch, "home")
    tmp = os.path.join(scratch, "tmp")
    for d in (home, tmp, os.path.join(home, ".cache"), os.path.join(home, ".config"),
              os.path.join(home, ".local", "share")):
        os.makedirs(d, exist_ok=True)
    os.environ.update({"HOME": home, "TMPDIR": tmp, "TEMP": tmp, "TMP": tmp,
                       "XDG_CACHE_HOME": os.path.join(home, ".cache"),
                       "XDG_CONFIG_HOME": os.path.join(home, ".config"),
                       "XDG_DATA_HOME": os.path.join(home, ".local", "share")})
    tempfile.tempdir = None


class Executor:
    def __init__(self, root, scratch, observe="all", messages=True, loose=False):
        self.root = root
        self.scratch = scratch
        self.objs = {}          # id -> object
        self.kinds = {}         # id -> 'program' | 'graph' | 'match' | 'text'
        self.observe = observe  # 'all' | 'none'
        self.messages = messages
        self.loose = loose
        self.written = {}
        self._intr = None
        self.bb = zygote.import_blackbird()
        self.trace_files = zygote.hand_written_files()

    # -- observation -------------------------------------------------------
    def render_obj(self, oid):
        o = self.objs[oid]
        k = self.kinds[oid]
        if k == "program":
            def dumps_of_copy():
                try:
                    text = self.bb.dumps(copy.deepcopy(o))
                    return ["text", D.normalise_message(text, self.root)]
                except Exception as e:
                    return D.render_exception(e, self.root, with_message=False)
            # the serialisation of an equal copy is taken BEFORE the attributes are read (the
            # rendering below reads every public attribute of the live object) and once more
            # afterwards: attribute reads are among the operations that must change nothing
            dz = dumps_of_copy()
            r = D.render_program(o, self.root, self.loose)
            dz2 = dumps_of_copy()
            out = [r, ["dumps_of_copy", dz]]
            if dz2 != dz:
                out.append(["dumps_of_copy_after_attribute_reads", dz2])
            return out
        if k == "graph":
            nodes = [[n, [[a, D.render(v, self.root, self.loose)] for a, v in sorted(attrs.items())]]
                     for n, attrs in sorted(o.nodes(data=True))]
            return ["graph", nodes, sorted([list(e) for e in o.edges()])]
        return ["value", D.render(o, self.root, self.loose)]

    def observe_all(self):
        out = {}
        for oid in self.objs:
            try:
                r = self.render_obj(oid)
                out[oid] = [D.sha(r), D.sha(r[1][1]) if self.kinds[oid] == "program" else ""]
                if self.kinds[oid] == "program" and len(r) > 2:
                    out[oid].append("attribute reads changed the serialisation")
            except Exception as e:
                out[oid] = ["unobservable:" + type(e).__name__, ""]
        return out

    # -- steps -------------------------------------------------------------
    def run_step(self, st):
        op = st["op"]
        ev = {"op": op}
        if op == "write":
            self.written[os.path.normpath(st["path"])] = st
            _write_file(os.path.join(self.root, st["path"]), _subst(step_text(st), self.root).encode("latin-1"))
            return ev
        if op == "mkdir":
            os.makedirs(os.path.join(self.root, st["path"]), exist_ok=True)
            return ev
        if op == "symlink":
            lp = os.path.join(self.root, st["path"])
            tp = os.path.join(self.root, st["target"])
            os.makedirs(tp, exist_ok=True)
            os.makedirs(os.path.dirname(lp), exist_ok=True)
            if os.path.islink(lp):
                os.unlink(lp)
            os.symlink(tp, lp)
            return ev
        if op == "unlink":
            try:
                os.unlink(os.path.join(self.root, st["path"]))
            except OSError:
                pass
            return ev
        if op == "chdir":
            p = st["path"]
            target = "/" if p == "/" else os.path.join(self.root, p)
            os.makedirs(target, exist_ok=True)
            os.chdir(target)
            return ev
        if op in LOAD_OPS:
            return self.do_load(st, ev)
        fn = getattr(self, "op_" + op)
        fault = st.get("fault") or {}
        intr = None
        if fault.get("kind") == "intr":
            intr = Interrupt(self.trace_files, at=fault.get("at"), exc=fault.get("exc", "MemoryError"))
        elif fault.get("kind") == "count":
            intr = Interrupt(self.trace_files, at=None)
        try:
            self._intr = intr
            if intr is not None:
                with intr:
                    res = fn(st)
            else:
                res = fn(st)
            ev["res"] = res
            ev["ok"] = True
        except BaseException as e:      # injected KeyboardInterrupt included
            if isinstance(e, SystemExit):
                raise
            ev["res"] = D.render_exception(e, self.root, self.messages)
            ev["ok"] = False
        finally:
            sys.settrace(None)
        if intr is not None:
            ev["lines"] = intr.count
            ev["fired"] = bool(intr.fired)
            ev["where"] = intr.where
        if op == "dump":
            ev["writer_failed"] = bool(getattr(self, "_writer_failed", False))
        return ev

    def do_load(self, st, ev):
        fault = resolve_fault(st.get("fault"), self.written)
        carry = zygote.carry_over()
        ev["carry"] = carry
        if st["op"] == "loads":
            arg = _subst(step_text(st), self.root)
            call = self.bb.loads
        else:
            absp = os.path.join(self.root, st["path"])
            if st.get("name"):
                # an explicit, NOT normalised file name (it may go through symbolic links)
                if st.get("style", "abs") == "rel":
                    up = os.path.relpath(self.root, os.getcwd())
                    arg = st["name"] if up == "." else up + "/" + st["name"]
                else:
                    arg = self.root + "/" + st["name"]
            elif st.get("style", "abs") == "rel":
                arg = os.path.relpath(absp, os.getcwd())
                if st.get("dot"):
                    arg = os.path.join(".", arg)
            else:
                arg = absp
            call = self.bb.load
        io_d = fault if fault and fault.get("kind") == "io" else None
        intr = None
        if fault and fault.get("kind") == "intr":
            intr = Interrupt(self.trace_files, at=fault.get("at"), exc=fault.get("exc", "MemoryError"))
        elif fault and fault.get("kind") == "count":
            intr = Interrupt(self.trace_files, at=None)
        elif fault and fault.get("kind") == "gc":
            # the cycle collector runs at ONE chosen line event of the package's own code
            intr = Interrupt(self.trace_files, at=fault.get("at"), action="collect")
        elif fault and fault.get("kind") == "count_all":
            intr = Interrupt(self.trace_files, at=None, action="collect")
        prog = None
        # torn / flipped content is made REAL on disk for the duration of the load (and the
        # original restored afterwards), so that stat(), mmap, os.open, pathlib and open() all
        # see one consistent file and anything validating by size/mtime revalidates
        on_disk = None
        if io_d and io_d.get("what") in ("tear", "flip") and io_d.get("path"):
            target = os.path.join(self.root, os.path.normpath(io_d["path"]))
            try:
                with open(target, "rb") as f:
                    original = f.read()
                _write_file(target, faulted_bytes(original, io_d))
                on_disk = (target, original, os.path.normpath(io_d["path"]))
            except OSError:
                on_disk = None
            io_d = None
        iof = IOFaults(self.root, io_d, self.scratch)
        try:
            with iof:
                if intr is not None:
                    with intr:
                        prog = call(arg)
                else:
                    prog = call(arg)
            ev["ok"] = True
        except BaseException as e:  # KeyboardInterrupt / MemoryError included
            if isinstance(e, SystemExit):
                raise
            ev["ok"] = False
            ev["res"] = D.render_exception(e, self.root, self.messages)
            if st.get("hold_exc"):
                # what a caller does who keeps the exception around (pytest's excinfo, a
                # notebook's last traceback): the exception, its traceback and every frame
                # and generator hanging off it become cyclic garbage, finalised whenever
                # the collector next runs - possibly in the middle of a later load
                cell = [e, sys.exc_info()]
                cell.append(cell)
                del cell
        finally:
            sys.settrace(None)
            if on_disk:
                _write_file(on_disk[0], on_disk[1])
        if iof.harness_error:
            raise RuntimeError(iof.harness_error)        # -> harness error in the parent
        ev["opens"] = iof.opens
        fired_disk = bool(on_disk and on_disk[2] in iof.opens)
        ev["fired"] = bool(iof.fired or fired_disk or (intr is not None and intr.fired))
        if intr is not None:
            ev["lines"] = intr.count
            ev["where"] = intr.where
        if prog is not None:
            oid = st.get("out")
            def dumps_of_copy():
                try:
                    return ["text", D.normalise_message(self.bb.dumps(copy.deepcopy(prog)), self.root)]
                except Exception as e:
                    return D.render_exception(e, self.root, False)
            # serialisation of an equal copy before and after the first read of the public
            # attributes (the rendering reads all of them on the live object)
            ev["dumps"] = dumps_of_copy()
            ev["res"] = D.render_program(prog, self.root, self.loose)
            again = dumps_of_copy()
            if again != ev["dumps"]:
                ev["attr_reads_changed_dumps"] = [ev["dumps"], again]
            if oid:
                self.objs[oid] = prog
                self.kinds[oid] = "program"
            try:
                ev["feat"] = {"argless": any("args" not in o for o in prog.operations),
                              "template": bool(prog.is_template()),
                              "ops": len(prog)}
            except Exception:
                pass
        return ev

    def quiet(self):
        """Context in which the harness's own rendering is not traced (an injected
        interruption belongs into the operation under test, not into the observation)."""
        ex = self

        class _Q:
            def __enter__(self_):
                self_.prev = sys.gettrace()
                sys.settrace(None)

            def __exit__(self_, *a):
                if self_.prev is not None and getattr(ex, "_intr", None) is not None and not ex._intr.fired:
                    sys.settrace(self_.prev)
                return False
        return _Q()

    # read-only API operations on earlier results ---------------------------
    def _get(self, oid):
        if oid not in self.objs:
            raise LookupError("no such object " + str(oid))
        return self.objs[oid]

    def op_dumps(self, st):
        text = self.bb.dumps(self._get(st["obj"]))
        with self.quiet():
            r = ["text", D.normalise_message(text, self.root)]
            return {"sha": D.sha(r), "text": r[1][:300]}

    def op_dump(self, st):
        """blackbird.dump(program, writer): the writer is the one output stream the package
        has.  The simulated writer accepts everything ('ok'), or fails with ENOSPC / EIO at
        its n-th write call ('fail') - a full disk or a closed pipe under the caller."""
        import errno as _errno
        ex = self
        mode = st.get("writer", "ok")

        class Writer:
            def __init__(self_):
                self_.parts = []
                self_.calls = 0

            def write(self_, data):
                self_.calls += 1
                if mode != "ok" and self_.calls >= st.get("nth", 1):
                    code = getattr(_errno, mode, _errno.EIO)
                    ex._writer_failed = True
                    raise OSError(code, os.strerror(code))
                self_.parts.append(data)
                return len(data)

            def writelines(self_, lines):
                for line in lines:
                    self_.write(line)

            def flush(self_):
                pass

            def writable(self_):
                return True

            closed = False

        w = Writer()
        self._writer_failed = False
        self.bb.dump(self._get(st["obj"]), w)
        with self.quiet():
            r = ["text", D.normalise_message("".join(w.parts), self.root)]
            return {"sha": D.sha(r), "text": r[1][:300]}

    def op_call(self, st):
        import numpy as np
        kwargs = {}
        for k, v in st.get("kwargs", {}).items():
            if isinstance(v, dict) and "nd" in v:
                kwargs[k] = np.array(v["nd"])
            elif isinstance(v, dict) and "ref" in v:
                kwargs[k] = self._get(v["ref"])      # a caller-owned array object, possibly reused
            else:
                kwargs[k] = v
        new = self._get(st["obj"])(**kwargs)
        with self.quiet():
            if st.get("out"):
                self.objs[st["out"]] = new
                self.kinds[st["out"]] = "program"
            return D.render_program(new, self.root, self.loose)

    def _decode(self, v):
        import numpy as np
        import sympy as sym
        if isinstance(v, dict):
            t = v.get("t")
            if t == "nd":
                return np.array(v["v"], dtype={"f": float, "i": int, "c": complex}[v.get("d", "f")])
            if t == "c":
                return complex(v["re"], v["im"])
            if t == "sym":
                return sym.sympify(v["e"], locals={n: sym.Symbol(n) for n in v["names"]})
            if t == "rrt":
                from blackbird.listener import RegRefTransform
                return RegRefTransform(sym.sympify(v["e"], locals={n: sym.Symbol(n) for n in v["names"]}))
            if t == "list":
                return [self._decode(x) for x in v["v"]]
        return v

    def op_build(self, st):
        """Assemble a program through the Python API (the way the repository's tests do)."""
        import sympy as sym
        spec = st["spec"]
        p = self.bb.BlackbirdProgram(name=spec.get("name", "built"), version="1.0")
        if spec.get("target"):
            p._target["name"] = spec["target"]
            p._target["options"] = {k: self._decode(v) for k, v in spec.get("options", [])}
        if spec.get("type"):
            p._type["name"] = spec["type"]
        for o in spec["ops"]:
            d = {"op": o["op"]}
            if o.get("args") is not None:
                d["args"] = [self._decode(a) for a in o["args"]]
                d["kwargs"] = {k: self._decode(a) for k, a in o.get("kwargs", [])}
            d["modes"] = list(o["modes"])
            p._operations.append(d)
            p._modes |= set(o["modes"])
        p._parameters = [sym.Symbol(n) for n in spec.get("params", [])]
        for k, v in spec.get("vars", []):
            p._var[k] = self._decode(v)
        self.objs[st["out"]] = p
        self.kinds[st["out"]] = "program"
        return ["built", len(p)]

    def op_mkarray(self, st):
        """A caller-owned numpy array that later template calls can be given by reference."""
        import numpy as np
        self.objs[st["out"]] = np.array(st["nd"], dtype=float)
        self.kinds[st["out"]] = "value"
        return ["array", list(self.objs[st["out"]].shape)]

    def op_digraph(self, st):
        from blackbird.utils import to_DiGraph
        g = to_DiGraph(self._get(st["obj"]))
        if st.get("out"):
            self.objs[st["out"]] = g
            self.kinds[st["out"]] = "graph"
        return ["graph", g.number_of_nodes(), g.number_of_edges()]

    def op_match(self, st):
        from blackbird.utils import match_template
        m = match_template(self._get(st["t"]), self._get(st["p"]))
        with self.quiet():
            if st.get("out"):
                self.objs[st["out"]] = m
                self.kinds[st["out"]] = "match"
            return D.render(m, self.root, self.loose)

    def op_attrs(self, st):
        p = self._get(st["obj"])
        which = st.get("which") or ["name", "version", "target", "programtype", "operations",
                                    "parameters", "variables", "modes", "len", "is_template"]
        out = []
        for a in which:
            if a == "len":
                v = len(p)
            elif a == "is_template":
                v = p.is_template()
            else:
                v = getattr(p, a)
            if a == "operations":
                out.append([a, D.sha([D.render_op(o, self.root, self.loose) for o in v])])
            else:
                out.append([a, D.sha(D.render(v, self.root, self.loose))])
        return out

    def op_deepcopy(self, st):
        o = copy.deepcopy(self._get(st["obj"]))
        if st.get("out"):
            self.objs[st["out"]] = o
            self.kinds[st["out"]] = self.kinds[st["obj"]]
        return ["copied"]

    def op_iter(self, st):
        """Read through every container the API hands out (pure reads)."""
        p = self._get(st["obj"])
        n = 0
        for o in p.operations:
            n += len(o.get("modes", ()))
            for a in o.get("args", ()):
                n += 1
            for k in o.get("kwargs", {}):
                n += 1
        for k in p.variables:
            n += 1
        for m in p.modes:
            n += 1
        return ["iter", n]

    # mutations of objects the history itself produced ------------------------
    def op_mutate(self, st):
        import numpy as np
        o = self._get(st["obj"])
        how = st["how"]
        kind = how["kind"]
        k = self.kinds[st["obj"]]
        if k == "graph":
            nodes = sorted(o.nodes())
            if kind == "g_add_node":
                o.add_node(10_000 + how.get("n", 0), name="Zz", args=[1], kwargs={}, modes=(0,))
            elif kind == "g_remove_node" and nodes:
                o.remove_node(nodes[how.get("n", 0) % len(nodes)])
            elif kind == "g_add_edge" and nodes:
                o.add_edge(nodes[0], 10_001)
            elif kind == "g_set_attr" and nodes:
                n = nodes[how.get("n", 0) % len(nodes)]
                o.nodes[n]["args"] = [42]
                o.nodes[n]["name"] = "Changed"
            return ["mutated", kind]
        if k == "match":
            if kind == "m_add":
                o["zz_new"] = 1.5
            elif kind == "m_del" and o:
                del o[sorted(o)[0]]
            return ["mutated", kind]
        ops = o.operations
        n = how.get("n", 0)
        if kind == "op_append":
            ops.append({"op": "Zgate", "args": [how.get("v", 0.25)], "kwargs": {}, "modes": [how.get("m", 0)]})
        elif kind == "op_del" and ops:
            del ops[n % len(ops)]
        elif kind == "op_append_badarray":
            # an argument the serialiser refuses (boolean / one-dimensional array): the next
            # dumps raises part-way through the operation list
            bad = np.array([[True, False]]) if n % 2 == 0 else np.array([1.0, 2.0])
            ops.append({"op": "Interferometer", "args": [bad], "kwargs": {}, "modes": [0]})
        elif kind == "op_pop" and ops:
            ops.pop()
        elif kind == "op_replace" and ops:
            ops[n % len(ops)] = {"op": "Rgate", "args": [how.get("v", 0.5)], "kwargs": {}, "modes": [0]}
        elif kind == "op_rename" and ops:
            ops[n % len(ops)]["op"] = "Renamed"
        elif kind == "arg_set" and ops:
            cands = [x for x in ops if x.get("args")]
            if cands:
                c = cands[n % len(cands)]
                c["args"][how.get("j", 0) % len(c["args"])] = how.get("v", 0.125)
        elif kind == "arg_append" and ops:
            cands = [x for x in ops if "args" in x]
            if cands:
                cands[n % len(cands)]["args"].append(how.get("v", 0.125))
        elif kind == "kwarg_set" and ops:
            cands = [x for x in ops if "kwargs" in x]
            if cands:
                cands[n % len(cands)]["kwargs"]["zz"] = how.get("v", 3)
        elif kind == "modes_edit" and ops:
            c = ops[n % len(ops)]
            if c.get("modes"):
                c["modes"][0] = c["modes"][0] + 7
        elif kind == "var_array_write":
            arrs = [v for v in o.variables.values() if isinstance(v, np.ndarray) and v.size]
            if arrs:
                a = arrs[n % len(arrs)]
                try:
                    a.flat[0] = a.flat[0] + 1 if a.dtype != object else 99
                except Exception:
                    a.flat[0] = 99
        elif kind == "var_set":
            o.variables["zz_v"] = how.get("v", 1)
        elif kind == "option_add":
            o.target["options"]["zz_opt"] = how.get("v", 5)
        elif kind == "type_option_add":
            o.programtype["options"]["zz_topt"] = how.get("v", 5)
        elif kind == "modes_add":
            o.modes.add(90 + n % 5)
        elif kind == "array_arg_write" and ops:
            for c in ops:
                for a in list(c.get("args", [])) + list(c.get("kwargs", {}).values()):
                    if isinstance(a, np.ndarray) and a.size and a.dtype != object:
                        a.flat[0] = a.flat[0] + 1
                        return ["mutated", kind]
        elif kind == "regref_edit" and ops:
            # an in-place edit of a register transform's own attributes (what a caller-side
            # relabelling pass does): the transform is part of this program, of no other
            for c in ops:
                for a in list(c.get("args", [])) + list(c.get("kwargs", {}).values()):
                    if hasattr(a, "regrefs") and hasattr(a, "func_str"):
                        if n % 2 == 0 and isinstance(a.regrefs, list):
                            a.regrefs.append(90 + n)
                        else:
                            a.func_str = str(a.func_str) + " + 0*zz"
                        return ["mutated", kind]
        elif kind == "list_kwarg_append" and ops:
            for c in ops:
                for a in c.get("kwargs", {}).values():
                    if isinstance(a, list):
                        a.append(7)
                        return ["mutated", kind]
        return ["mutated", kind]


def run_plan(plan, root, scratch, mode="history", only=None, observe="all",
             messages=True, loose=False, gc_off=False):
    """Execute plan; return list of events.

    mode 'history': every step.  mode 'pristine': environment steps before index
    `only`, then step `only` alone."""
    if gc_off:
        # automatic cycle collection is off in this child: garbage a caller is still holding
        # is finalised only where a plan step says so ("gc" fault: collector runs at one chosen
        # line event of a later load) - a function of the plan, not of allocation counters
        import gc
        gc.disable()
    # the same recursion headroom below this frame in every child, wherever on its parent's
    # stack the fork happened (history, warm pristine, cold pristine, replay): set ONCE at
    # process start, so that whatever the package later does to the limit accumulates
    depth = 0
    f = sys._getframe()
    while f is not None:
        depth += 1
        f = f.f_back
    sys.setrecursionlimit(1000 + depth)
    reset_root(root)
    private_env(scratch)
    os.chdir(root)
    ex = Executor(root, scratch, observe=observe, messages=messages, loose=loose)
    events = []
    for i, st in enumerate(plan):
        if mode == "pristine":
            if i > only:
                break
            if i < only and st["op"] not in ENV_OPS:
                continue
        ev = ex.run_step(st)
        ev["i"] = i
        if mode == "history" and observe == "all" and st["op"] not in ENV_OPS:
            ev["objs"] = ex.observe_all()
        if st["op"] not in ENV_OPS or mode == "history":
            events.append(ev)
    return events
