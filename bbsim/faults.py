"""Fault seams, applied from outside the package under test, in child processes only.

 * IOFaults: wrapper over builtins.open / io.open, active only while a load runs.
   Logs opens of paths under the simulated root; a directive names one file (every open of
   it during the load) and either raises OSError(errno) or hands out a stream with one
   short read.  Torn / flipped content is NOT done here: child.do_load writes it to the
   real path for the duration of the load (so stat, mmap, os.open and pathlib agree with
   open) and restores the original afterwards.  (The copy-based tear/flip branch below is
   only reachable for directives addressed by ordinal, which no generator emits any more.)
 * Interrupt: sys.settrace line events inside the package's own modules; the k-th eligible
   event raises MemoryError / KeyboardInterrupt into the running frame, or (action
   "collect") runs the cycle collector at that line.
"""
import builtins
import errno
import io
import os
import sys

ERRNOS = {"ENOENT": errno.ENOENT, "EACCES": errno.EACCES, "EIO": errno.EIO,
          "EMFILE": errno.EMFILE, "EISDIR": errno.EISDIR}


def faulted_bytes(data, d):
    """Apply a tear/flip directive to file bytes. Addressing is by line (stable under
    <ROOT> substitution) and column within that line."""
    what = d["what"]
    lines = data.splitlines(keepends=True)
    li = max(0, min(int(d.get("line", 0)), len(lines)))
    off = sum(len(x) for x in lines[:li])
    col = int(d.get("col") or 0)
    if li < len(lines):
        col = max(0, min(col, len(lines[li])))
    else:
        col = 0
    pos = off + col
    if what == "tear":
        return data[:pos]
    if what == "flip":
        if not data:
            return data
        pos = min(pos, len(data) - 1)
        return data[:pos] + bytes([data[pos] | 0x80]) + data[pos + 1:]
    raise ValueError("unknown fault %r" % (what,))


class ShortRaw(io.RawIOBase):
    """A raw byte stream over fixed data whose FIRST read returns fewer bytes than asked
    for although more data follows (as a pipe, a FIFO or a network file system may do);
    later reads deliver the rest and b"" only at the real end.  Perfectly legal behaviour
    of a raw stream: a reader must go on until it sees the empty read."""

    def __init__(self, data, first):
        super().__init__()
        self._data = data
        self._pos = 0
        self._first = max(1, min(first, len(data))) if data else 0
        self.name = "<short-read>"
        self.mode = "rb"

    def readable(self):
        return True

    def readinto(self, b):
        if self._pos >= len(self._data):
            return 0
        limit = self._first if self._pos < self._first else len(self._data)
        n = min(len(b), limit - self._pos)
        b[:n] = self._data[self._pos:self._pos + n]
        self._pos += n
        return n


class IOFaults:
    def __init__(self, root, directive, scratch):
        self.root = os.path.realpath(root)
        self.d = directive
        self.scratch = scratch
        self.opens = []          # relative paths opened under root, in order
        self.fired = False
        self.harness_error = None
        self._real_open = builtins.open
        self._real_io_open = io.open
        self._occ = {}

    def _rel(self, file):
        if not isinstance(file, (str, bytes, os.PathLike)):
            return None
        try:
            p = os.path.realpath(os.fspath(file))
        except Exception:
            return None
        if isinstance(p, bytes):
            p = p.decode("utf-8", "replace")
        if p == self.root or p.startswith(self.root + os.sep):
            return os.path.relpath(p, self.root)
        return None

    def _open(self, file, *a, **k):
        rel = self._rel(file)
        if rel is None:
            return self._real_open(file, *a, **k)
        self.opens.append(rel)
        d = self.d
        if d is None or d.get("what") == "none" or (self.fired and not d.get("every")):
            return self._real_open(file, *a, **k)
        n = len(self.opens)
        self._occ[rel] = self._occ.get(rel, 0) + 1
        hit = False
        if "nth" in d:
            hit = (n == int(d["nth"]))
        elif "path" in d:
            hit = (rel == os.path.normpath(d["path"]) and
                   (d.get("every") or self._occ[rel] == int(d.get("occurrence", 1))))
        if not hit:
            return self._real_open(file, *a, **k)
        self.fired = True
        what = d["what"]
        if what in ERRNOS:
            raise OSError(ERRNOS[what], os.strerror(ERRNOS[what]), os.fspath(file))
        try:
            with self._real_open(os.fspath(file), "rb") as f:
                data = f.read()
        except OSError:
            # nothing to tear: behave like the real open
            return self._real_open(file, *a, **k)
        if what == "short":
            return self._short(data, dict(d, _file=os.fspath(file)), a, k)
        try:
            os.makedirs(self.scratch, exist_ok=True)
            fp = os.path.join(self.scratch, "faulted.%d" % n)
            fd = os.open(fp, os.O_WRONLY | os.O_CREAT | os.O_TRUNC, 0o600)
            try:
                os.write(fd, faulted_bytes(data, d))
            finally:
                os.close(fd)
        except OSError as e:
            # the harness could not prepare the faulted copy (e.g. scratch full): never let
            # that reach the code under test as if it were the injected fault
            self.harness_error = "cannot write faulted copy: %s" % e
            self.fired = False
            return self._real_open(file, *a, **k)
        return self._real_open(fp, *a, **k)

    def _short(self, data, d, a, k):
        """Hand out a stream with one short read at the directive's position, honouring the
        caller's mode / buffering / encoding like open() would."""
        lines = data.splitlines(keepends=True)
        li = max(0, min(int(d.get("line", 0)), len(lines)))
        first = sum(len(x) for x in lines[:li]) + int(d.get("col") or 0)
        def arg(pos, name, default=None):
            return a[pos] if len(a) > pos else k.get(name, default)
        mode = arg(0, "mode", "r")
        buffering = arg(1, "buffering", -1)
        raw = ShortRaw(data, first)
        raw.name = d.get("_file", raw.name)
        if "b" in mode:
            return raw if buffering == 0 else io.BufferedReader(raw)
        if buffering == 0:
            raise ValueError("can't have unbuffered text I/O")
        return io.TextIOWrapper(io.BufferedReader(raw), encoding=arg(2, "encoding"), errors=arg(3, "errors"),
                                newline=arg(4, "newline"))

    def __enter__(self):
        builtins.open = self._open
        io.open = self._open
        return self

    def __exit__(self, *exc):
        builtins.open = self._real_open
        io.open = self._real_io_open
        return False


class Interrupt:
    """Line-event tracer restricted to a set of file names."""

    EXC = {"MemoryError": MemoryError, "KeyboardInterrupt": KeyboardInterrupt}

    def __init__(self, files, at=None, exc="MemoryError", action="raise"):
        self.files = set(files)
        self.at = at
        self.exc = self.EXC[exc]
        self.action = action          # "raise" an exception, or run the cycle "collect"or
        self.count = 0
        self.fired = False
        self.where = None

    def _eligible(self, frame):
        """An interruption is injected only where a synchronous failure is plausible and
        where correct code is not already cleaning up: at a line that contains a call,
        not inside (or below) an `except` / `finally` block, and not while an exception
        is being handled.  Code that restores its state in try/finally is therefore never
        blamed for an exception that arrives inside the finally block itself."""
        calls, protected = line_info(frame.f_code.co_filename)
        ln = frame.f_lineno
        if ln not in calls or ln in protected:
            return False
        if sys.exc_info()[0] is not None:
            return False
        f = frame.f_back
        while f is not None:
            fn = f.f_code.co_filename
            if fn in self.files and f.f_lineno in line_info(fn)[1]:
                return False
            f = f.f_back
        return True

    def _local(self, frame, event, arg):
        if event == "line" and (self.action == "collect" or self._eligible(frame)):
            self.count += 1
            if self.at is not None and self.count == self.at and not self.fired:
                self.fired = True
                self.where = "%s:%d" % (os.path.basename(frame.f_code.co_filename), frame.f_lineno)
                if self.action == "collect":
                    import gc
                    gc.collect()          # finalisers of held garbage run here, at this line
                else:
                    raise self.exc("bbsim injected interruption")
        return self._local

    def _global(self, frame, event, arg):
        if event == "call" and frame.f_code.co_filename in self.files:
            return self._local
        return None

    def __enter__(self):
        sys.settrace(self._global)
        return self

    def __exit__(self, *exc):
        sys.settrace(None)
        return False


_LINE_INFO = {}


def line_info(filename):
    """(lines containing a call, lines inside except/finally blocks) of a source file."""
    if filename in _LINE_INFO:
        return _LINE_INFO[filename]
    import ast
    calls, protected = set(), set()
    try:
        with io.open(filename, "rb") as f:
            tree = ast.parse(f.read(), filename)
        for node in ast.walk(tree):
            if isinstance(node, ast.Call):
                calls.update(range(node.lineno, (node.end_lineno or node.lineno) + 1))
            if isinstance(node, (ast.Try, getattr(ast, "TryStar", ast.Try))):
                for h in node.handlers:
                    protected.update(range(h.lineno, (h.end_lineno or h.lineno) + 1))
                for st in node.finalbody:
                    protected.update(range(st.lineno, (st.end_lineno or st.lineno) + 1))
                if node.handlers:
                    # `try: work() except ...: undo(); raise  else: undo()` - the success-path
                    # twin of a handler is cleanup as well
                    for st in node.orelse:
                        protected.update(range(st.lineno, (st.end_lineno or st.lineno) + 1))
            if isinstance(node, ast.With):
                # the header of a with statement: __enter__/__exit__ bookkeeping
                protected.add(node.lineno)
    except (OSError, SyntaxError):
        pass
    _LINE_INFO[filename] = (calls, protected)
    return _LINE_INFO[filename]
