"""C13 — read-only operations leave programs unchanged; instances are independent.

One history process; a snapshot reference model (content digest + serialisation per
live object) is checked after every step.  See DESIGN.md §4.3 (incl. the honest
statement about how well this property fits the technique)."""
import copy
import json
import re

from . import gen as G
from . import child, digest as D
from .procs import fork_run

PROP = "C13"
PROG_MUTS = ["op_append_badarray", "op_pop", "op_pop", "op_append", "op_del", "op_replace", "op_rename", "arg_set", "arg_append", "kwarg_set",
             "modes_edit", "var_array_write", "var_set", "option_add", "type_option_add", "modes_add",
             "array_arg_write", "list_kwarg_append", "regref_edit", "regref_edit"]
GRAPH_MUTS = ["g_add_node", "g_remove_node", "g_add_edge", "g_set_attr"]
MATCH_MUTS = ["m_add", "m_del"]


def runs_for(tier):
    return 3000 if tier == "quick" else 40000


def matchable_template(rng, pool):
    """A template with affine single-parameter positional arguments (match_template's domain)."""
    names = rng.sample(pool, min(len(pool), rng.randint(1, 3)))
    items = []
    for _ in range(rng.randint(1, 5)):
        k = rng.random()
        m = rng.randrange(0, 4)
        if k < 0.2:
            items.append(["%s | %d" % (rng.choice(G.GATES0), m)])
        elif k < 0.3:
            items.append(["MeasureX | %d" % m])
        else:
            args = []
            for _ in range(rng.randint(1, 2)):
                p = rng.choice(names)
                args.append(rng.choice(["{%s}", "-{%s}", "2*{%s}-1", "{%s}+0.5", "0.45"]).replace("%s", p))
            items.append(["%s(%s) | %d" % (rng.choice(G.GATES1), ", ".join(args), m)])
    if not any("{" in it[0] for it in items):
        items.append(["Rgate({%s}) | 0" % names[0]])
    used = [n for n in names if any("{%s}" % n in it[0] for it in items)]
    head = ["name tmpl", "version 1.0"]
    if rng.random() < 0.4:
        head.append("target gaussian (shots=10)")
    return {"head": head, "items": items, "params": used, "array_params": [], "defs": used}


def built_spec(rng, pool):
    """A program assembled through the API from every supported value kind."""
    names = rng.sample(pool, min(len(pool), rng.randint(0, 2)))
    names = [n for n in names if not (n[0] == "p" and n[1:].isdigit())]
    ops = []

    def val():
        k = rng.random()
        if k < 0.15:
            cols = rng.randint(1, 3)
            return {"t": "nd", "d": rng.choice("fic"), "v": [[rng.choice([1, 2, 0, -3]) for _ in range(cols)]
                                                             for _ in range(rng.randint(1, 2))]}
        if k < 0.25:
            return {"t": "c", "re": rng.choice([0.5, -1.0, 2.0]), "im": rng.choice([1.0, -0.25])}
        if k < 0.33:
            return rng.choice([True, False])
        if k < 0.40:
            return rng.choice(["foo", "bar"])
        if k < 0.55 and names:
            a = rng.choice(names)
            return {"t": "sym", "names": names, "e": rng.choice(["2*%s+1", "%s", "-%s/3", "%s**2"]) % a}
        if k < 0.62:
            return {"t": "rrt", "names": ["q0", "q1"], "e": rng.choice(["q0*2", "q0+q1", "q1-0.5*q0"])}
        if k < 0.7:
            return {"t": "list", "v": [rng.choice([1, 0.5, 2]) for _ in range(rng.randint(0, 3))]}
        return rng.choice([1, 0.5, -2, 3.25, 0])

    for _ in range(rng.randint(1, 5)):
        o = {"op": rng.choice(G.GATES1 + G.GATES0), "modes": rng.sample(range(4), rng.randint(1, 2))}
        if rng.random() < 0.8:
            o["args"] = [val() for _ in range(rng.randint(0, 2))]
            o["kwargs"] = [[k, val()] for k in rng.sample(G.KWKEYS, rng.randint(0, 2))]
        ops.append(o)
    mentioned = set()

    def collect(v):
        if isinstance(v, dict) and v.get("t") == "sym":
            mentioned.update(n for n in v["names"] if re.search(r"\b%s\b" % re.escape(n), v["e"]))
        elif isinstance(v, dict) and v.get("t") == "list":
            for x in v["v"]:
                collect(x)
    for o in ops:
        for a in o.get("args") or []:
            collect(a)
        for _, a in o.get("kwargs") or []:
            collect(a)
    used = [n for n in names if n in mentioned]
    spec = {"name": "built", "ops": ops, "params": used}
    if rng.random() < 0.5:
        spec["target"] = rng.choice(G.DEVICES)
        spec["options"] = [[k, rng.choice([1, 10, True, "x"])] for k in rng.sample(G.OPTKEYS, rng.randint(0, 2))]
    return spec, used


def array_template(rng, pool):
    """A template whose variables are whole-array parameters and arrays with parameter
    cells, used through indexing (the array-valued-parameter corner of instantiation)."""
    names = rng.sample(pool, min(len(pool), rng.randint(2, 3)))
    items = []
    aps = []
    params = []
    r, c = rng.randint(1, 2), rng.randint(1, 3)
    items.append(["float array W[%d, %d] =" % (r, c), "    {%s}" % names[0], ""])
    aps.append((names[0], r, c))
    if rng.random() < 0.6:
        row = ", ".join(rng.choice(["1.5", "{%s}" % names[1], "0.25"]) for _ in range(3))
        if "{" not in row:
            row = "{%s}, " % names[1] + row
        items.append(["float array V =", "    " + row, ""])
        params.append(names[1])
    for _ in range(rng.randint(1, 3)):
        items.append(["%s(W[%d], %s) | %d" % (rng.choice(G.GATES1), rng.randrange(r * c),
                                              rng.choice(["0.5", "{%s}" % names[-1], "2*{%s}" % names[-1]]),
                                              rng.randrange(3))])
    if any("{%s}" % names[-1] in it[0] for it in items) and names[-1] not in params and names[-1] != names[0]:
        params.append(names[-1])
    if rng.random() < 0.5:
        items.append(["Vac | 1"])
    return {"head": ["name arrtmpl", "version 1.0"], "items": items, "params": params,
            "array_params": aps, "defs": names}


def gen_plan(rng):
    cfg = G.swarm(rng)
    feats = set(cfg["features"])
    for f, p in (("templates", 0.85), ("kwargs", 0.6), ("measure", 0.7), ("arrays", 0.6),
                 ("whole_array_param", 0.5), ("array_params", 0.5), ("regrefs", 0.5), ("tdm", 0.4)):
        if rng.random() < p:
            feats.add(f)
    feats.discard("includes")
    cfg["features"] = sorted(feats)
    cfg["fail_call_rate"] = rng.choice([0.0, 0.15, 0.4])
    cfg["mut_rate"] = rng.choice([0.15, 0.3, 0.5])
    cfg["intr_rate"] = rng.choice([0.0, 0.0, 0.1, 0.25])
    steps = []
    progs = []      # {"id", "params", "array_params", "template": maybe}
    npool = rng.randint(2, 5)
    sc = None
    for j in range(npool):
        k = rng.random()
        if rng.random() < 0.2:
            spec, used = built_spec(rng, cfg["pool"])
            steps.append({"op": "build", "out": "o%d" % j, "spec": spec})
            progs.append({"id": "o%d" % j, "params": used, "array_params": [], "kind": "program"})
            continue
        if sc is not None and k < 0.2:
            pass            # the same script once more: an equal but distinct program
        elif k < 0.4:
            sc = matchable_template(rng, cfg["pool"])
        elif k < 0.55:
            sc = array_template(rng, cfg["pool"])
        else:
            sc = G.ScriptGen(rng, cfg).build()
        oid = "o%d" % j
        steps.append({"op": "loads", "out": oid, "script": {"head": sc["head"], "items": sc["items"]}})
        progs.append({"id": oid, "params": sc.get("params", []), "array_params": sc.get("array_params", []),
                      "kind": "program"})
    nsteps = rng.choice([3, 5, 8, 12, 20, 30])
    objs = list(progs)
    used_kwargs = []     # kwargs of earlier calls, re-used verbatim on equal templates
    for p in list(progs):
        if (p["params"] or p["array_params"]) and rng.random() < 0.3:
            # an equal copy taken before anything has been done to the original
            steps.append({"op": "deepcopy", "obj": p["id"], "out": "c" + p["id"]})
            objs.append({"id": "c" + p["id"], "params": p["params"], "array_params": p["array_params"],
                         "kind": "program", "derived": None})
    # caller-owned arrays that are handed to several template calls by reference
    arrays = []
    if any(p["array_params"] for p in progs) and rng.random() < 0.7:
        for j in range(rng.randint(1, 2)):
            aid = "a%d" % j
            steps.append({"op": "mkarray", "out": aid,
                          "nd": [[rng.choice([1, 2, 0.5, 7, -1.5]) for _ in range(3)] for _ in range(3)]})
            arrays.append(aid)
    counter = [0]

    def fresh(prefix):
        counter[0] += 1
        return "%s%d" % (prefix, counter[0])

    def values_for(p, mode="ok"):
        kw = {}
        for n in p["params"]:
            kw[n] = rng.choice([0.5, 1.25, 2, -0.75, 3])
        for (n, r, c) in p["array_params"]:
            rr, cc = (r, c)
            if mode == "baddim":
                kw[n] = [rng.choice([1, 2.5]) for _ in range(cc)]       # 1-D: refused
                mode = "ok"
            elif arrays and rng.random() < 0.6:
                kw[n] = {"ref": rng.choice(arrays)}
            else:
                kw[n] = [[rng.choice([1, 2, 0.5, 7]) for _ in range(cc)] for _ in range(rr)]
        if mode == "missing" and kw:
            del kw[rng.choice(sorted(kw))]
        if mode == "baddim" and kw:
            kw[rng.choice(sorted(kw))] = [1, 2]
        return kw

    for _ in range(nsteps):
        programs = [o for o in objs if o["kind"] == "program"]
        if rng.random() < cfg["mut_rate"] and objs:
            # mutate an object the history produced (bias: instances, graphs, matches)
            derived = [o for o in objs if o.get("derived")]
            tgt = rng.choice(derived) if derived and rng.random() < 0.75 else rng.choice(objs)
            kinds = {"program": PROG_MUTS, "graph": GRAPH_MUTS, "match": MATCH_MUTS}[tgt["kind"]]
            if tgt.get("from_array") and rng.random() < 0.5:
                kinds = ["var_array_write", "array_arg_write"]
            steps.append({"op": "mutate", "obj": tgt["id"],
                          "how": {"kind": rng.choice(kinds), "n": rng.randrange(5), "j": rng.randrange(3),
                                  "v": rng.choice([0.125, 3, 7.5, -2]), "m": rng.randrange(4)}})
            continue
        k = rng.random()
        p = rng.choice(programs)
        templates = [o for o in programs if o["params"] or o["array_params"]]
        if 0.18 <= k < 0.45 and templates and rng.random() < 0.85:
            p = rng.choice(templates)
        if k < 0.18:
            if rng.random() < 0.3:
                # dump() to a stream: the writer is the package's one output seam; it may
                # fail (full disk, closed pipe) at its first or a later write call
                st = {"op": "dump", "obj": p["id"], "writer": "ok"}
                if rng.random() < 0.5:
                    st.update({"writer": rng.choice(["ENOSPC", "EIO", "EPIPE"]), "nth": rng.choice([1, 1, 2, 3])})
                steps.append(st)
            else:
                steps.append({"op": "dumps", "obj": p["id"]})
        elif k < 0.45:
            mode = "ok"
            if rng.random() < cfg["fail_call_rate"]:
                mode = rng.choice(["missing", "baddim"])
            oid = fresh("i")
            sig = (sorted(p["params"]), sorted(map(tuple, p["array_params"])))
            same = [kw for s2, kw in used_kwargs if s2 == sig]
            if same and mode == "ok" and rng.random() < 0.45:
                kw = copy.deepcopy(rng.choice(same))
            else:
                kw = values_for(p, mode)
                if mode == "ok":
                    used_kwargs.append((sig, kw))
            steps.append({"op": "call", "obj": p["id"], "kwargs": kw, "out": oid,
                          "mode": mode})
            if mode == "ok":
                objs.append({"id": oid, "params": [], "array_params": [], "kind": "program",
                             "derived": p["id"], "from_array": bool(p["array_params"])})
        elif k < 0.62:
            oid = fresh("g")
            steps.append({"op": "digraph", "obj": p["id"], "out": oid})
            objs.append({"id": oid, "kind": "graph", "derived": p["id"]})
        elif k < 0.80:
            # bias to (template, non-template) pairs and to (template, its own instance),
            # the pair that can succeed; the rest exercises every refusal
            t = rng.choice(templates) if templates and rng.random() < 0.8 else p
            plain = [o for o in programs if not (o["params"] or o["array_params"])]
            q = rng.choice(plain) if plain and rng.random() < 0.8 else rng.choice(programs)
            insts = [o for o in programs if o.get("derived") == t["id"]]
            if insts and rng.random() < 0.6:
                q = rng.choice(insts)
            oid = fresh("m")
            steps.append({"op": "match", "t": t["id"], "p": q["id"], "out": oid})
            if insts and q in insts:
                objs.append({"id": oid, "kind": "match", "derived": t["id"]})
        elif k < 0.88:
            steps.append({"op": "attrs", "obj": p["id"]})
        elif k < 0.94:
            steps.append({"op": "iter", "obj": p["id"]})
        else:
            oid = fresh("c")
            steps.append({"op": "deepcopy", "obj": p["id"], "out": oid})
            objs.append({"id": oid, "params": p["params"], "array_params": p["array_params"],
                         "kind": "program", "derived": None})
    for st in steps:
        if st["op"] in ("call", "digraph", "match", "dumps", "dump") and rng.random() < cfg["intr_rate"]:
            st["fault"] = {"kind": "intr", "exc": rng.choice(["MemoryError", "KeyboardInterrupt"]),
                           "frac": rng.random()}
    return {"prop": PROP, "steps": steps, "cfg": cfg}


def prepare(plan, ctx):
    """Resolve interruption instants of read-only operations by a counting dry run."""
    need = [i for i, s in enumerate(plan["steps"])
            if s.get("fault", {}).get("kind") == "intr" and "at" not in s["fault"]]
    if not need:
        return plan
    dry = copy.deepcopy(plan["steps"])
    for i in need:
        dry[i]["fault"] = {"kind": "count"}
    evs = fork_run(child.run_plan, dry, ctx["root"], ctx["scratch"], observe="none")
    by_i = {e["i"]: e for e in evs}
    for i in need:
        n = by_i.get(i, {}).get("lines") or 0
        f = plan["steps"][i]["fault"]
        f["at"] = 1 + int(f.pop("frac", 0.5) * n) if n else 1
        f["n_dry"] = n
    return plan


def run(plan, ctx):
    steps = plan["steps"]
    stats = {}

    def bump(k, n=1):
        stats[k] = stats.get(k, 0) + n

    H = fork_run(child.run_plan, steps, ctx["root"], ctx["scratch"], mode="history")
    viol = []
    model = {}          # oid -> [content sha, dumps sha]
    graphs_of = {}      # program oid -> set of graph oids derived from it
    values_of = {}      # instance oid -> caller-owned arrays it was created from
    intr_sites = set()
    call_memo = {}      # (operation, content of operands, values) -> (result digest, operand, step)
    feats = {}
    instances_of = {}
    succeeded_call = set()
    mutated = set()
    ro_on_interesting = False
    checks_after = 0
    had_mut = False
    for ev in H:
        i = ev["i"]
        st = steps[i]
        op = st["op"]
        if op in child.ENV_OPS:
            continue
        objs = ev.get("objs", {})
        bump("steps")
        bump("op:" + op)
        if st.get("fault", {}).get("kind") == "intr":
            bump("fault_configured:interrupt_in_" + op)
            if ev.get("fired"):
                bump("fault_fired:interrupt_in_" + op)
                bump("intr_where:" + str(ev.get("where", "?")).split(":")[0])
                intr_sites.add(str(ev.get("where")))
        if op == "call" and st.get("mode") in ("missing", "baddim"):
            bump("fault_configured:failing_call_" + st["mode"])
            if not ev.get("ok", True):
                bump("fault_fired:failing_call_" + st["mode"])
        if op == "match":
            bump("fault_configured:match_attempt")
            if not ev.get("ok", True):
                bump("fault_fired:match_attempt")
        if not ev.get("ok", True):
            bump("raised:" + op)
            bump("raised_type:" + str(ev["res"][1]))
        allowed = set()
        if op == "mutate":
            allowed.add(st["obj"])
            allowed |= graphs_of.get(st["obj"], set())
            # an instance may keep using the very array object its caller passed in: that
            # the caller's array follows is not a statement about programs (the sibling
            # instance and the template, however, must not follow)
            allowed |= values_of.get(st["obj"], set())
            if ev.get("ok", True) and objs.get(st["obj"]) != model.get(st["obj"]):
                had_mut = True
                mutated.add(st["obj"])
                bump("mut_effective:" + st["how"]["kind"])
            bump("mut:" + st["how"]["kind"])
        elif op in child.LOAD_OPS:
            if ev.get("attr_reads_changed_dumps"):
                viol.append({"inv": "R1", "step": i, "obj": st.get("out"),
                             "detail": "reading the public attributes of the freshly loaded %s changed its "
                                       "serialisation: before %s, after %s" % (
                                           st.get("out"), str(ev["attr_reads_changed_dumps"][0])[:300],
                                           str(ev["attr_reads_changed_dumps"][1])[:300])})
            if ev.get("feat"):
                feats[st["out"]] = ev["feat"]
        elif op in ("build", "mkarray"):
            if op == "build":
                feats[st["out"]] = {"argless": any(o.get("args") is None for o in st["spec"]["ops"]),
                                    "template": bool(st["spec"].get("params"))}
        else:
            src = st.get("obj") or st.get("t")
            f = feats.get(src, {})
            if f.get("argless") or f.get("template"):
                ro_on_interesting = True
            if op == "digraph" and f.get("argless"):
                bump("probe:digraph_on_argless_program")
            operands = [x for x in (st.get("obj"), st.get("t"), st.get("p")) if x]
            writer_failed = op == "dump" and bool(ev.get("writer_failed"))
            if op == "dump" and st.get("writer", "ok") != "ok":
                bump("fault_configured:writer_error_in_dump")
                if writer_failed:
                    bump("fault_fired:writer_error_in_dump")
            if op in ("call", "digraph", "match", "dumps", "dump", "attrs", "iter", "deepcopy") and \
                    operands and all(x in model for x in operands) and not ev.get("fired") and \
                    not (op == "dump" and st.get("writer", "ok") != "ok"):
                # R4: what a read-only operation returns depends only on the content of its
                # operands (and the values passed) - equal programs answer equal operations
                # equally, whatever read-only or failed operations either has been through
                kw = {}
                for k2, v2 in sorted(st.get("kwargs", {}).items()):
                    kw[k2] = ["ref", model.get(v2["ref"], ["?"])[0]] if isinstance(v2, dict) and "ref" in v2 else v2
                key = op + "|" + "|".join(model[x][0] for x in operands) + "|" + json.dumps(kw, sort_keys=True)
                if not ev.get("ok"):
                    got = "exc:" + str(ev["res"][1])
                elif st.get("out"):
                    got = objs.get(st["out"], ["?"])[0]
                else:
                    got = D.sha(ev["res"])
                if op == "deepcopy" and ev.get("ok") and got != model[st["obj"]][0]:
                    viol.append({"inv": "R4", "step": i, "obj": src,
                                 "detail": "deepcopy(%s) at step %d is not equal to the original" % (src, i)})
                if key in call_memo and call_memo[key][0] != got:
                    viol.append({"inv": "R4", "step": i, "obj": src,
                                 "detail": "%s at step %d gives %s, but the same operation on an equal program (%s, "
                                           "step %d) gave %s" % (_describe(st), i,
                                                                "a different result" if ev.get("ok") else got,
                                                                call_memo[key][1], call_memo[key][2],
                                                                "a result" if not call_memo[key][0].startswith("exc:") else call_memo[key][0])})
                    bump("probe:repeated_%s_compared" % op)
                elif key in call_memo:
                    bump("probe:repeated_%s_compared" % op)
                else:
                    call_memo[key] = (got, src, i)
            if op == "call":
                if ev.get("ok"):
                    succeeded_call.add(src)
                    if any(x in mutated for x in instances_of.get(src, ())):
                        bump("probe:reinstantiated_after_instance_mutated")
                    instances_of.setdefault(src, []).append(st["out"])
                    if any(isinstance(v, (list, dict)) for v in st.get("kwargs", {}).values()):
                        bump("probe:array_parameter_instance")
                    refs = set(v["ref"] for v in st.get("kwargs", {}).values() if isinstance(v, dict) and "ref" in v)
                    if refs:
                        values_of[st["out"]] = refs
                        bump("probe:instance_from_shared_caller_array")
                elif src in succeeded_call:
                    bump("probe:failing_call_after_successful_call")
            if op == "match":
                if ev.get("ok"):
                    bump("probe:match_succeeded")
                elif ev["res"][1] == "TemplateError" and "Not the same program" in str(ev["res"][2:]):
                    bump("probe:match_failed_after_graphs_built")
            if op == "digraph" and ev.get("ok") and st.get("out"):
                graphs_of.setdefault(st["obj"], set()).add(st["out"])
            if op in ("dumps", "dump") and not ev.get("fired") and not writer_failed:
                # (a dump whose writer never failed - e.g. 'fail at the 3rd write' when there
                # is only one - is an ordinary dump: what was written is the serialisation)
                want = model.get(st["obj"])
                if want is not None:
                    if ev.get("ok"):
                        got = ev["res"]["sha"]
                    else:
                        got = D.sha(["exc", ev["res"][1]])
                    if got != want[1]:
                        viol.append({"inv": "R1", "step": i, "obj": st["obj"],
                                     "detail": "dump/dumps(%s) at step %d produced %s, but the serialisation of an "
                                               "equal copy taken just before was different" %
                                               (st["obj"], i, (ev["res"].get("text") if ev.get("ok") else ev["res"]))})
        for oid, now in objs.items():
            if len(now) > 2 and len(model.get(oid, [])) <= 2:
                viol.append({"inv": "R1", "step": i, "obj": oid,
                             "detail": "reading the public attributes of %s (name, version, target, programtype, "
                                       "operations, variables, parameters, modes, len, is_template) changed its "
                                       "serialisation (observed after step %d)" % (oid, i)})
        # R1/R2: nothing but the declared mutation target may change
        for oid, h in model.items():
            if oid in allowed:
                continue
            now = objs.get(oid)
            if now != h:
                inv = "R2" if not ev.get("ok", True) else ("R3" if op == "mutate" else "R1")
                what = "content" if now and now[0] != h[0] else "serialisation"
                viol.append({"inv": inv, "step": i, "obj": oid,
                             "detail": "%s of %s changed by step %d: %s%s" %
                                       (what, oid, i, _describe(st),
                                        " (which raised %s)" % ev["res"][1] if not ev.get("ok", True) else "")})
        if model:
            checks_after += 1
        model = dict(objs)
    stats["interruption_sites"] = sorted(intr_sites)
    nontrivial = bool(ro_on_interesting and had_mut and checks_after)
    return {"violations": viol, "stats": stats, "log": D.sha(H), "nontrivial": nontrivial}


def _describe(st):
    if st["op"] == "mutate":
        return "mutate %s (%s)" % (st["obj"], st["how"]["kind"])
    if st["op"] == "match":
        return "match_template(%s, %s)" % (st["t"], st["p"])
    if st["op"] == "call":
        return "%s(**%s)" % (st["obj"], st.get("kwargs"))
    return "%s(%s)" % (st["op"], st.get("obj"))


def effectiveness(total, tier):
    """A batch that did not really exercise anything must not pass as 'held'."""
    steps = total.get("steps", 0)
    if steps < 3000:
        return None
    problems = []
    need = ["probe:digraph_on_argless_program", "probe:failing_call_after_successful_call",
            "probe:match_succeeded", "raised:call", "probe:repeated_call_compared"]
    problems += ["reach probe stuck at zero: " + k for k in need if not total.get(k)]
    # harness-side steps that fail wholesale (e.g. because a private attribute the
    # harness pokes was renamed) would make part of the workload vacuous
    for op in ("build", "loads", "mkarray"):
        n, bad = total.get("op:" + op, 0), total.get("raised:" + op, 0)
        if n >= 50 and bad > 0.5 * n:
            problems.append("%d of %d '%s' steps raised" % (bad, n, op))
    wasted = total.get("raised_type:LookupError", 0) + total.get("raised_type:AttributeError", 0)
    if wasted > 0.3 * steps:
        problems.append("%d of %d steps were wasted on missing objects/attributes" % (wasted, steps))
    if not any(k.startswith("mut_effective:") for k in total):
        problems.append("no mutation changed its target")
    for k, v in total.items():
        if k.startswith("fault_configured:") and v >= 30 and not total.get("fault_fired:" + k.split(":", 1)[1]):
            problems.append("fault kind %s was configured %d times and never fired" % (k.split(":", 1)[1], v))
    return "; ".join(problems) or None


def describe():
    return {
        "rule": "histories are drawn by a seeded PRNG: 2-5 programs loaded from generated scripts (plain, "
                "templates with scalar/array parameters, tdm, argument-less operations, register transforms), "
                "then 3-30 steps of dumps / dump to a writer that may fail / template call (valid, missing value, wrong dimension) / to_DiGraph "
                "/ match_template / attribute reads / deepcopy interleaved with mutations of produced objects; "
                "distinct by plan digest; non-trivial when a read-only operation ran on a template or on a "
                "program with an argument-less operation, at least one mutation happened and the model was "
                "checked afterwards",
        "components": {"real": ["blackbird (working tree)", "sympy", "numpy", "networkx", "copy.deepcopy"],
                       "stubs": [], "interposers": []},
        "assumptions": ["copy.deepcopy and the digest renderer do not modify their argument",
                        "a mutation of a program may change graphs built from it (they share argument lists by construction)"],
    }
