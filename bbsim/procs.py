"""Process plumbing: fork a child of the current (zygote) process, run a job in it,
collect the JSON result over a pipe with a wall-clock timeout.  A hung, killed or
crashed child is a HarnessError, never a violation."""
import faulthandler
import json
import os
import select
import signal
import sys
import time
import traceback


class HarnessError(Exception):
    pass


CHILD_TIMEOUT = float(os.environ.get("BBSIM_CHILD_TIMEOUT", "90"))


def fork_run(fn, *args, timeout=None, **kwargs):
    """Run fn(*args, **kwargs) in a forked child; return its (JSON-able) result."""
    timeout = timeout or CHILD_TIMEOUT
    r, w = os.pipe()
    sys.stdout.flush()
    sys.stderr.flush()
    pid = os.fork()
    if pid == 0:
        code = 0
        try:
            os.close(r)
            faulthandler.dump_traceback_later(timeout + 20, exit=True)   # last resort if the parent is gone
            try:
                res = {"ok": True, "value": fn(*args, **kwargs)}
            except BaseException as e:  # harness-level failure inside the child
                res = {"ok": False, "error": "%s: %s" % (type(e).__name__, e),
                       "tb": traceback.format_exc()[-3000:]}
            data = json.dumps(res).encode()
            view = memoryview(data)
            while view:
                n = os.write(w, view[:65536])
                view = view[n:]
            os.close(w)
        except BaseException:
            code = 3
            try:
                traceback.print_exc()
            except Exception:
                pass
        finally:
            os._exit(code)
    os.close(w)
    chunks = []
    deadline = time.monotonic() + timeout
    try:
        while True:
            left = deadline - time.monotonic()
            if left <= 0:
                os.kill(pid, signal.SIGKILL)
                os.waitpid(pid, 0)
                raise HarnessError("child timed out after %.0fs" % timeout)
            rl, _, _ = select.select([r], [], [], min(left, 1.0))
            if rl:
                b = os.read(r, 1 << 20)
                if not b:
                    break
                chunks.append(b)
    finally:
        os.close(r)
    _, status = os.waitpid(pid, 0)
    if status != 0:
        raise HarnessError("child exited with status %r" % (status,))
    try:
        res = json.loads(b"".join(chunks).decode())
    except Exception as e:
        raise HarnessError("child returned unparsable result: %s" % e)
    if not res.get("ok"):
        raise HarnessError("child harness failure: %s\n%s" % (res.get("error"), res.get("tb", "")))
    return res["value"]


def scratch_top(need_bytes=512 << 20):
    """Scratch area of this user: tmpfs when it exists, is writable and has room,
    otherwise TMPDIR / /var/tmp."""
    cands = ["/dev/shm", os.environ.get("BBSIM_TMPDIR") or os.environ.get("TMPDIR") or "/var/tmp", "/var/tmp"]
    for base in cands:
        try:
            if not (os.path.isdir(base) and os.access(base, os.W_OK)):
                continue
            st = os.statvfs(base)
            if st.f_bavail * st.f_frsize < need_bytes:
                continue
            top = os.path.join(base, "bbsim-%d" % os.getuid())
            os.makedirs(top, exist_ok=True)
            return top
        except OSError:
            continue
    raise HarnessError("no writable scratch directory with %d MB free" % (need_bytes >> 20))


def worker_dirs(tag=None):
    """Private scratch for this worker process: (root, scratch). Fixed-width names so
    that path lengths (and therefore column numbers in messages) never vary."""
    top = scratch_top()
    d = os.path.join(top, "w%07d" % os.getpid())
    os.makedirs(os.path.join(d, "root"), exist_ok=True)
    os.makedirs(os.path.join(d, "scratch"), exist_ok=True)
    return os.path.join(d, "root"), os.path.join(d, "scratch"), d


def cleanup_stale():
    base = scratch_top()
    import shutil
    for n in os.listdir(base):
        digits = n[1:] if n.startswith("w") else (n[4:] if n.startswith("c19.") else "")
        if digits.isdigit():
            pid = int(digits)
            try:
                os.kill(pid, 0)
            except ProcessLookupError:
                shutil.rmtree(os.path.join(base, n), ignore_errors=True)
            except PermissionError:
                pass


# --------------------------------------------------------------------------- cold server
import socket
import struct


def _send_msg(sock, data):
    sock.sendall(struct.pack("!I", len(data)) + data)


def _recv_exact(sock, n):
    buf = b""
    while len(buf) < n:
        b = sock.recv(n - len(buf))
        if not b:
            return None
        buf += b
    return buf


def _recv_msg(sock):
    h = _recv_exact(sock, 4)
    if h is None:
        return None
    return _recv_exact(sock, struct.unpack("!I", h)[0])


class ColdServer:
    """A fork server created BEFORE the zygote warms up: its children are completely
    cold pristine processes (no warm parser DFA, no lazily imported sympy printers).
    The server itself never executes blackbird code; it only forks.  Jobs are calls of
    bbsim.child.run_plan."""

    def __init__(self):
        self.sock, other = socket.socketpair()
        sys.stdout.flush()
        self.pid = os.fork()
        if self.pid == 0:
            try:
                self.sock.close()
                self._serve(other)
            finally:
                os._exit(0)
        other.close()

    def _serve(self, sock):
        from . import child
        while True:
            msg = _recv_msg(sock)
            if msg is None:
                return
            job = json.loads(msg.decode())
            try:
                val = fork_run(child.run_plan, *job["args"], timeout=job.get("timeout"), **job["kwargs"])
                out = {"ok": True, "value": val}
            except HarnessError as e:
                out = {"ok": False, "error": str(e)}
            _send_msg(sock, json.dumps(out).encode())

    def run(self, fn, *args, timeout=None, **kwargs):
        if self.sock is None:
            raise HarnessError("cold server unavailable after an earlier timeout")
        _send_msg(self.sock, json.dumps({"args": list(args), "kwargs": kwargs, "timeout": timeout}).encode())
        self.sock.settimeout((timeout or CHILD_TIMEOUT) + 10)
        try:
            msg = _recv_msg(self.sock)
        except socket.timeout:
            # a late reply would be read as the answer to the NEXT job: give the server up
            try:
                self.sock.close()
            finally:
                self.sock = None
            raise HarnessError("cold server timed out")
        if msg is None:
            raise HarnessError("cold server died")
        out = json.loads(msg.decode())
        if not out["ok"]:
            raise HarnessError("cold child: " + out["error"])
        return out["value"]

    def close(self):
        try:
            self.sock.close()
        except OSError:
            pass
        try:
            os.waitpid(self.pid, 0)
        except ChildProcessError:
            pass
