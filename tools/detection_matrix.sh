#!/bin/bash
# Detection of every seeded breaking change within the QUICK budget, over several VERIF_SEEDs.
# Writes selftest/detection_matrix.txt (one line per change: caught/missed per seed).
cd "$(dirname "$0")/.." || exit 2
seeds=${*:-0 1 2 3}
out=selftest/detection_matrix.txt
: > $out
for d in seeded/*/; do
  id=$(basename $d); p=${id:0:3}
  cw=$(jq -r '.check_with // empty' $d/meta.json 2>/dev/null); [ -n "$cw" ] && p=$cw
  if grep -q "NOT REPORTED, by decision" $d/meta.json; then echo "$id $p (not reported by decision)" >> $out; continue; fi
  line="$id $p"
  for s in $seeds; do
    if tools/sensitivity.py --patch $d/patch.diff --prop $p --skip-suite --seed $s | grep -v "^SELFTEST" | head -1 | grep -q " ok$"; then line="$line seed$s:caught"; else line="$line seed$s:MISSED"; fi
  done
  echo "$line" | tee -a $out
done
