#!/venv/bin/python
"""Regenerate /verif/MANIFEST.json (kept valid against /root/.vp/MANIFEST.schema.json)."""
import json
import os

V = os.path.dirname(os.path.dirname(os.path.abspath(__file__)))

NA = {
 "C01": "pure function loads∘dumps of one input; no schedule, clock, I/O fault or history dimension (its hash-order facet is decided under C19, its global-table facet under C12)",
 "C02": "pure function of the script text; nothing a simulator can schedule or inject",
 "C03": "pure arithmetic evaluation of one expression",
 "C04": "pure function of (template text, value assignment); independence of instances is decided under C13",
 "C05": "pure function of the declaration text",
 "C06": "pure function of the script text; the loop variable left by a failed load is decided under C12",
 "C08": "pure function of the expression; the hash-order-dependent pairing of registers and function is decided under C19",
 "C09": "pure function of one constructed program",
 "C10": "pure function of one character string; history independence of the verdict is observed under C12",
 "C11": "pure function of (script, included files)",
 "C14": "static artefact equality plus pure recognisers; nothing runs concurrently or is scheduled",
 "C15": "pure function of the script text; cross-load effects of p-names are decided under C12",
 "C16": "pure function of one program; the side effect of building the graph is decided under C13",
 "C17": "pure function of (template, program)",
 "C18": "pure metamorphic relation on one input; line endings are handled by the lexer, not by file I/O",
}

CHECKS = {
 "C12": {
  "text": "Seeded search over call histories: one history process executes 2-12 load/loads calls (valid scripts, templates, scripts failing at every stage, echo probes mentioning earlier names in every syntactic slot) with injected file-read faults (errno, torn, flipped, short reads), interruptions (MemoryError/KeyboardInterrupt at a call line of the package's own code outside except/finally blocks), exceptions the caller keeps in garbage cycles with seeded collector timing, environment changes, scripts whose loading depends on interpreter-wide state (expression chains around the recursion boundary, functions applied to values equal across types, arithmetic leaving the floating-point range) and mutations of earlier results (including in-place edits of register transforms); every load outcome is compared with the same call in a pristine fork of a never-used zygote, and earlier results must stay unchanged. Evidence, not proof: a sampled history space with reach counters.",
  "note": "Reading taken: an interrupted load (Ctrl-C, MemoryError) is an 'earlier load attempt' in the sense of the statement, so leaving state behind on that path counts; code that cleans up in try/finally is never blamed for an exception inside the finally itself. Trusted: os.fork gives a pristine image (plus a private, emptied HOME/TMPDIR per child); the warm-up of the zygote (generated parser only) is semantically invisible (1 run in 32 uses completely cold pristine forks); deepcopy/render used for observation are read-only. Thread interleavings are deliberately out of scope (the library makes no thread-safety claim).",
  "technique": "deterministic simulation: seeded history + fault schedule, differential oracle against pristine fork",
  "design": "DESIGN.md §4.2",
 },
 "C13": {
  "text": "Seeded search over operation histories on aliased objects (templates, instances, graphs, match results): dumps, dump() to a simulated writer that may fail (ENOSPC/EIO/EPIPE at its n-th write), template calls (valid and failing), to_DiGraph, match_template, attribute reads, deep copies, interleaved with mutations of objects the history produced; a snapshot reference model (content digest + serialisation per object, the serialisation taken before and after the observer's own attribute reads) is checked after every step. Weakest fit to the technique (no clock, I/O or schedule), stated in DESIGN.md.",
  "note": "Reading taken: 'observably unchanged' includes what the program returns when used again (equal programs answer equal read-only operations equally), and an operation that raises - because of its input or because of an injected MemoryError/KeyboardInterrupt at a call line outside except/finally - must leave everything unchanged. Trusted: copy.deepcopy and the renderer are read-only; mutations through containers documented as the program's own count as mutations of that program; edits through a graph node's args list (shared with the program by construction) are not generated.",
  "technique": "deterministic simulation: seeded operation/fault history against a snapshot reference model",
  "design": "DESIGN.md §4.3",
 },
 "C07": {
  "text": "Seeded search over environments: real directory trees on tmpfs with decoy files, process working directories, path styles, repeated loads, a symbolic link, a twin project with the same relative layout, nested includes up to depth 3 (chains up to depth 6 in one run of seven), names containing glob characters with pattern-matching siblings, templates forwarding parameters under permuted names, 1-5 calls per subroutine, non-contiguous unsorted mode sets, template parameters, plus file-read faults (errno, tears and short reads at statement boundaries, byte flips in comments); oracle = an independent executable inlining model interpreting the same data model.",
  "note": "Trusted: the reference model (bbsim/model07.py, no blackbird import) implements exactly the statement of C07; constructs the statement leaves open (registers inside includes, same program name in two included files, '..' after a symbolic link, a call-site mode list naming a mode twice, circular includes, relative includes in loads()) are not generated; mismatched calls must raise (C11); keyword order inside an operation is not compared.",
  "technique": "deterministic simulation: seeded file-system/cwd/fault environment against an executable reference model",
  "design": "DESIGN.md §4.1",
 },
 "C19": {
  "text": "K fresh interpreters, each with its own PYTHONHASHSEED derived from VERIF_SEED, plus a second run of the first seed on the same directories and a run of it with assertions stripped (PYTHONOPTIMIZE), receive the same sequence of generated worlds (scripts, include trees - also with register transforms inside the included programs - and array programs whose declared names clash with the serialiser's hoisted names); program content digests and serialisations must agree in all of them and the register/function pairing invariant must hold in each. The check reports itself ineffective if no iteration order actually differed.",
  "note": "Trusted: PYTHONHASHSEED is the only source of run-to-run nondeterminism in CPython relevant here; a few dozen of 2^32 seeds are sampled. All interpreters go through the same history of worlds, so dependence on what a process did before is not C19's to see; it is decided under C12.",
  "technique": "deterministic simulation: interpreter hash seed as the controlled nondeterminism source, cross-run digest equality",
  "design": "DESIGN.md §4.4",
 },
}


def main():
    have = [p for p in ("C07", "C12", "C13", "C19")
            if os.path.exists(os.path.join(V, "bbsim", p.lower() + ".py"))]
    checks = []
    for p in have:
        c = CHECKS[p]
        checks.append({
            "property_id": p,
            "quick_cmd": "./check %s --tier quick" % p,
            "thorough_cmd": "./check %s --tier thorough" % p,
            "evidence_file": "/verif/evidence/%s.json" % p,
            "replay_cmd_template": "./check %s --replay {path}" % p,
            "engine": "bbsim",
            "level_claimed": {"category": "exploration", "text": c["text"], "design_ref": c["design"]},
            "level_note": c["note"],
            "technique": c["technique"],
        })
    na = dict(NA)
    for p in ("C07", "C12", "C13", "C19"):
        if p not in have:
            na[p] = "check not built yet (planned, see DESIGN.md)"
    hooks_commits = []
    m = {
        "version": 1,
        "setup_cmd": "/venv/bin/python -c \"import sys; sys.path.insert(0, '/repo/blackbird_python'); import blackbird, antlr4, sympy, numpy, networkx; print('ok')\"",
        "hooks": {"guard": "XANADUAI_BLACKBIRD_VERIF",
                  "enable": "no source hooks exist: every seam (open wrapper, rewriting simulated files, settrace, fork, PYTHONHASHSEED / PYTHONOPTIMIZE, real tmpfs tree, private HOME/TMPDIR) is applied from outside at run time, so /repo is used as is",
                  "baseline_off_cmd": "cd /repo && /venv/bin/python -m pytest -ra -q -p no:cacheprovider --timeout=900 --continue-on-collection-errors",
                  "source_commits": hooks_commits, "add_only": True},
        "engines": [{"name": "bbsim", "path": "/verif/bbsim", "serves_properties": have,
                     "kind_free_text": "deterministic simulator written for this repository: zygote/fork process model, seeded plan generator, fault seams (open wrapper for errno/short reads, on-disk torn/flipped files, settrace interruptions and seeded collector runs, interpreter hash seed / optimisation level), ddmin shrinker, replay files"}],
        "checks": checks,
        "not_applicable": [{"property_id": k, "reason": v} for k, v in sorted(na.items())],
        "notes": "Deterministic simulation with fault injection; see DESIGN.md. Exit codes: 0 held, 1 violation, 2 harness error/ineffective run.",
    }
    with open(os.path.join(V, "MANIFEST.json"), "w") as f:
        json.dump(m, f, indent=1)
    print("checks:", have)


if __name__ == "__main__":
    main()
