#!/bin/bash
# Everything the harness has ever been shown must still behave: hand-made regressions and
# equivalent edits, the independently written breaking changes (seeded/), the independently
# written refactorings (equivalent/), and the replays of the repaired defects.
cd "$(dirname "$0")/.." || exit 2
rc=0
tools/sensitivity.py --skip-suite || rc=1
for d in seeded/*/; do
  id=$(basename $d); p=${id:0:3}
  cw=$(jq -r '.check_with // empty' $d/meta.json 2>/dev/null); [ -n "$cw" ] && p=$cw
  if grep -q "NOT REPORTED, by decision" $d/meta.json; then
    tools/sensitivity.py --patch $d/patch.diff --prop $p --skip-suite --expect-silent | grep -v "^SELFTEST" | head -1
  else
    tools/sensitivity.py --patch $d/patch.diff --prop $p --skip-suite | grep -v "^SELFTEST" | head -1 | grep -q " ok$" && echo "$id $p caught" || { echo "$id $p NOT CAUGHT"; rc=1; }
  fi
done
for d in equivalent/*/; do
  id=$(basename $d)
  for p in C07 C12 C13 C19; do
    tools/sensitivity.py --patch $d/patch.diff --prop $p --skip-suite --expect-silent | grep -v "^SELFTEST" | head -1 | grep -q " ok$" && echo "$id $p silent" || { echo "$id $p ALARM"; rc=1; }
  done
done
tools/replay_findings.sh || rc=1
echo "FULL REGRESSION: $([ $rc -eq 0 ] && echo ok || echo FAILED)"
exit $rc
