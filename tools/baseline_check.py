#!/venv/bin/python
"""Run the repository's suite (guard off) and compare with BASELINE.json stable_pass."""
import json, os, subprocess, sys, tempfile
import xml.etree.ElementTree as ET
base = json.load(open('/root/.vp/BASELINE.json'))
fd, path = tempfile.mkstemp(suffix='.xml'); os.close(fd)
cmd = base['cmd'].replace('<file>', path)
env = dict(os.environ); env.pop('XANADUAI_BLACKBIRD_VERIF', None)
subprocess.run(cmd, shell=True, env=env, stdout=subprocess.DEVNULL, stderr=subprocess.DEVNULL)
passed = set()
for tc in ET.parse(path).getroot().iter('testcase'):
    if not list(tc):
        passed.add(tc.get('classname') + '::' + tc.get('name'))
os.unlink(path)
want = set(base['stable_pass'])
missing = sorted(want - passed)
print('stable_pass=%d passed_now=%d missing=%d' % (len(want), len(passed), len(missing)))
for m in missing[:20]:
    print('  MISSING', m)
sys.exit(1 if missing else 0)
