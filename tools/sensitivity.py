#!/venv/bin/python
"""Sensitivity / no-false-alarm self-test (DESIGN.md §6.2, §6.3).

For every hand-made regression (MUTANTS) and every behaviour-preserving edit
(EQUIVALENT) a scratch copy of /repo/blackbird_python is made under /dev/shm, the
edit is applied, the relevant check is run against it through BBSIM_PKG_PATH with
evidence/replays redirected to a scratch directory, and the copy is removed.
A mutant must be reported (exit 1, VIOLATION line); an equivalent edit must not.

Also applies patch files: tools/sensitivity.py --patch FILE --prop C07 [--runs N]
Results: /verif/selftest/sensitivity.json"""
import argparse
import json
import os
import shutil
import subprocess
import sys
import time

VERIF = os.path.dirname(os.path.dirname(os.path.abspath(__file__)))
SRC = "/repo/blackbird_python"

L = "blackbird/listener.py"
P = "blackbird/program.py"
U = "blackbird/utils.py"
I = "blackbird/__init__.py"

MUTANTS = [
 # ---- C12 -------------------------------------------------------------------
 ("c12_no_clear_in_parse", "C12", [(L, "    _VAR.clear()\n    _PARAMS.clear()\n\n    lexer = blackbirdLexer(data)", "    lexer = blackbirdLexer(data)")]),
 ("c12_includes_class_attribute", "C12", [(L, "        self._includes = {}\n", ""),
                                          (L, "    def __init__(self, cwd=None):\n", "    _includes = {}\n\n    def __init__(self, cwd=None):\n")]),
 ("c12_include_file_cache", "C12", [(L, "        cwd = os.path.dirname(filename)\n        data = antlr4.FileStream(filename)\n",
                                        "        if filename in _INCLUDE_CACHE:\n            bb = _INCLUDE_CACHE[filename]\n            self._includes[bb.name] = [filename, bb]\n            return\n        cwd = os.path.dirname(filename)\n        data = antlr4.FileStream(filename)\n"),
                                    (L, "        bb = listener.program\n        self._includes[bb.name] = [filename, bb]\n", "        bb = listener.program\n        _INCLUDE_CACHE[filename] = bb\n        self._includes[bb.name] = [filename, bb]\n"),
                                    (L, "def is_ptype(p):", "_INCLUDE_CACHE = {}\n\n\ndef is_ptype(p):")]),
 ("c12_shared_default_target", "C12", [(P, "        self._target = {\"name\": None, \"options\": dict()}\n", "        self._target = _DEFAULT_TARGET\n"),
                                       (P, "class BlackbirdProgram:", "_DEFAULT_TARGET = {\"name\": None, \"options\": dict()}\n\n\nclass BlackbirdProgram:"),
                                       (L, "        self._program._target[\"name\"] = ctx.device().getText()\n", "        self._program._target = dict(self._program._target)\n        self._program._target[\"name\"] = ctx.device().getText()\n")]),
 ("c12_clear_only_on_success", "C12", [(L, "    _VAR.clear()\n    _PARAMS.clear()\n\n    lexer = blackbirdLexer(data)", "    lexer = blackbirdLexer(data)"),
                                       (L, "    walker.walk(blackbird, tree)\n\n    return blackbird.program", "    walker.walk(blackbird, tree)\n    _VAR.clear()\n    _PARAMS.clear()\n\n    return blackbird.program")]),
 ("c12_forvar_not_deleted_on_error", "C12", [(L, "    _VAR.clear()\n    _PARAMS.clear()\n\n    lexer = blackbirdLexer(data)", "    if not _PARAMS:\n        _VAR.clear()\n    _PARAMS.clear()\n\n    lexer = blackbirdLexer(data)")]),
 ("c12_cleanup_only_on_exception", "C12", [(L, "    _VAR.clear()\n    _PARAMS.clear()\n\n    lexer = blackbirdLexer(data)", "    lexer = blackbirdLexer(data)"),
                                           (L, "    walker.walk(blackbird, tree)\n\n    return blackbird.program", "    try:\n        walker.walk(blackbird, tree)\n    except Exception:\n        _VAR.clear()\n        _PARAMS.clear()\n        raise\n\n    return blackbird.program")]),
 ("c12_disk_include_cache_mtime_seconds", "C12", [
     (L, "        cwd = os.path.dirname(filename)\n        data = antlr4.FileStream(filename)\n",
         "        import hashlib, pickle, tempfile\n        cwd = os.path.dirname(filename)\n        data = antlr4.FileStream(filename)\n"
         "        key = hashlib.sha1((os.path.abspath(filename) + str(int(os.path.getmtime(filename)))).encode()).hexdigest()\n"
         "        cache = os.path.join(tempfile.gettempdir(), 'bbinc-' + key + '.pkl')\n"
         "        if os.path.exists(cache):\n            with open(cache, 'rb') as f:\n                bb, inc = pickle.load(f)\n"
         "            self._includes[bb.name] = [filename, bb]\n            self._includes.update(inc)\n            return\n"),
     (L, "        bb = listener.program\n        self._includes[bb.name] = [filename, bb]\n",
         "        bb = listener.program\n        with open(cache, 'wb') as f:\n            pickle.dump((bb, listener._includes), f)\n        self._includes[bb.name] = [filename, bb]\n")]),
 # ---- C07 -------------------------------------------------------------------
 ("c07_swallow_permission_error", "C07", [(L, "        data = antlr4.FileStream(filename)\n\n        # parse the included file", "        try:\n            data = antlr4.FileStream(filename)\n        except PermissionError:\n            warnings.warn(\"cannot read include \" + filename)\n            return\n\n        # parse the included file")]),
 ("c07_load_uses_getcwd", "C07", [(I, "    cwd = os.path.dirname(filename)\n", "    cwd = os.getcwd()\n")]),
 ("c07_nested_relative_to_top", "C07", [(L, "        listener = BlackbirdListener(cwd=cwd)\n", "        listener = BlackbirdListener(cwd=self._cwd)\n")]),
 ("c07_dedupe_by_basename", "C07", [(L, "            if f[0] == filename:\n", "            if os.path.basename(f[0]) == os.path.basename(filename):\n")]),
 ("c07_no_arity_check", "C07", [(L, "            if len(operation[\"modes\"]) != len(bb.modes):\n", "            if False and len(operation[\"modes\"]) != len(bb.modes):\n")]),
 ("c07_zip_unsorted", "C07", [(L, "dict(zip(sorted(bb.modes), operation[\"modes\"]))", "dict(zip(bb.modes, operation[\"modes\"]))")]),
 ("c07_no_copy_per_call", "C07", [(L, "                bb = copy.deepcopy(bb)\n", "")]),
 ("c07_kwargs_subset_check", "C07", [(L, "                if bb.parameters != set(operation[\"kwargs\"]):\n", "                if not bb.parameters <= set(operation[\"kwargs\"]):\n")]),
 ("c07_abs_include_joined", "C07", [(L, "        filename = os.path.join(self._cwd, ctx.STR().getText()[1:-1])\n",
                                        "        filename = os.path.normpath(os.path.join(self._cwd, ctx.STR().getText()[1:-1].lstrip(\"./\") if ctx.STR().getText()[1:3] == \"./\" else ctx.STR().getText()[1:-1]))\n")]),
 # ---- C13 -------------------------------------------------------------------
 ("c13_digraph_writes_keys", "C13", [(U, "        args = op.get('args', [])\n        kwargs = op.get('kwargs', {})\n", "        args = op.setdefault('args', [])\n        kwargs = op.setdefault('kwargs', {})\n")]),
 ("c13_call_shares_target", "C13", [(P, "        prog = copy.deepcopy(self)\n", "        prog = copy.deepcopy(self)\n        prog._target = self._target\n")]),
 ("c13_failed_call_leaves_parameters_empty", "C13", [(P, "        prog = copy.deepcopy(self)\n        prog._parameters = [] # pylint: disable=protected-access\n",
                                                         "        saved, self._parameters = self._parameters, []\n        prog = copy.deepcopy(self)\n"),
                                                     (P, "        return prog\n\n    def __len__", "        self._parameters = saved\n        return prog\n\n    def __len__")]),
 ("c13_serialize_normalises_in_place", "C13", [(P, "        for op in self.operations:\n            if len(op[\"modes\"]) == 1:", "        for op in self.operations:\n            if \"args\" in op and not op[\"args\"] and not op[\"kwargs\"]:\n                del op[\"args\"], op[\"kwargs\"]\n            if len(op[\"modes\"]) == 1:")]),
 ("c13_parameters_detached_during_copy", "C13", [(P, "        prog = copy.deepcopy(self)\n        prog._parameters = [] # pylint: disable=protected-access\n",
                                                    "        params, self._parameters = self._parameters, []  # no need to copy the symbols\n        prog = copy.deepcopy(self)\n        self._parameters = params\n")]),
 ("c13_digraph_cached_object", "C13", [(U, "    grid = {}\n\n    for idx, op in enumerate(program.operations):", "    cached = getattr(program, '_graph_cache', None)\n    if cached is not None and cached[0] == repr(program.operations):\n        return cached[1]\n    grid = {}\n\n    for idx, op in enumerate(program.operations):"),
                                       (U, "            G.add_edge(cmds[i-1][0], cmds[i][0])\n\n    return G", "            G.add_edge(cmds[i-1][0], cmds[i][0])\n\n    program._graph_cache = (repr(program.operations), G)\n    return G")]),
 ("c13_serializer_global_array_counter", "C13", [(P, "        var_count = 0\n", "        global _VAR_COUNT\n        var_count = _VAR_COUNT\n"),
                                                 (P, "        return \"\\n\".join(script)\n", "        _VAR_COUNT = var_count\n        return \"\\n\".join(script)\n"),
                                                 (P, "class BlackbirdProgram:", "_VAR_COUNT = 0\n\n\nclass BlackbirdProgram:")]),
 ("c13_dump_detaches_operations_while_writing", "C13", [(I, "    text = blackbird.serialize()\n    f.write(text)\n",
                                                           "    text = blackbird.serialize()\n    ops, blackbird._operations = blackbird._operations, []  # release while writing\n    f.write(text)\n    blackbird._operations = ops\n")]),
 # ---- C19 -------------------------------------------------------------------
 ("c19_str_replace_per_symbol", "C19", [(P, "                        braced = {p: sym.Symbol(\"{\" + str(p) + \"}\") for p in v.free_symbols}\n                        res = str(v.xreplace(braced))\n",
                                            "                        res = str(v)\n                        for p in v.free_symbols:\n                            res = res.replace(str(p), \"{\"+str(p)+\"}\")\n")]),
 ("c19_regrefs_sorted_func_unsorted", "C19", [(L, "        self.regrefs = [int(str(i)[1:]) for i in regref_symbols]\n", "        self.regrefs = sorted(int(str(i)[1:]) for i in regref_symbols)\n")]),
 ("c19_parameters_list_from_set", "C19", [(L, "        self._program._parameters.extend([p for p in _PARAMS if not is_ptype(p)])\n", "        self._program._parameters.extend(set(p for p in _PARAMS if not is_ptype(p)))\n"),
                                          (P, "        script = [\"name {}\".format(self.name), \"version {}\".format(self.version)]\n", "        script = [\"name {}\".format(self.name), \"version {}\".format(self.version)]\n        if self._parameters:\n            script.append(\"# parameters: \" + \", \".join(str(p) for p in dict.fromkeys(self._parameters)))\n")]),
]

EQUIVALENT = [
 # a CORRECT cache of include texts, validated by (device, inode, size, mtime_ns): found by the
 # third review to be blamed when faults were addressed by ordinal and invisible to stat()
 ("eq_stat_validated_include_text_cache", "C12", [(L, "        cwd = os.path.dirname(filename)\n        data = antlr4.FileStream(filename)\n",
        "        cwd = os.path.dirname(filename)\n        st_ = os.stat(filename)\n        sig = (st_.st_dev, st_.st_ino, st_.st_size, st_.st_mtime_ns)\n        hit = _TEXT_CACHE.get(os.path.realpath(filename))\n        if hit is not None and hit[0] == sig:\n            data = antlr4.InputStream(hit[1])\n        else:\n            data = antlr4.FileStream(filename)\n            _TEXT_CACHE[os.path.realpath(filename)] = (sig, data.strdata)\n"),
     (L, "def is_ptype(p):", "_TEXT_CACHE = {}\n\n\ndef is_ptype(p):")]),
 ("eq_stat_validated_include_text_cache", "C07", [(L, "        cwd = os.path.dirname(filename)\n        data = antlr4.FileStream(filename)\n",
        "        cwd = os.path.dirname(filename)\n        st_ = os.stat(filename)\n        sig = (st_.st_dev, st_.st_ino, st_.st_size, st_.st_mtime_ns)\n        hit = _TEXT_CACHE.get(os.path.realpath(filename))\n        if hit is not None and hit[0] == sig:\n            data = antlr4.InputStream(hit[1])\n        else:\n            data = antlr4.FileStream(filename)\n            _TEXT_CACHE[os.path.realpath(filename)] = (sig, data.strdata)\n"),
     (L, "def is_ptype(p):", "_TEXT_CACHE = {}\n\n\ndef is_ptype(p):")]),
 # deepcopy that rebuilds operation dicts in another key order (content and dumps identical)
 ("eq_deepcopy_reorders_operation_keys", "C13", [(P, "    def __len__(self):", "    def __deepcopy__(self, memo):\n        new = BlackbirdProgram.__new__(BlackbirdProgram)\n        memo[id(self)] = new\n        for k_, v_ in self.__dict__.items():\n            setattr(new, k_, copy.deepcopy(v_, memo))\n        new._operations = [dict((k_, o[k_]) for k_ in ('op', 'modes', 'args', 'kwargs') if k_ in o) for o in new._operations]\n        return new\n\n    def __len__(self):")]),
 # looked like a regression, is not one: the arrays in `variables` are re-copied later in __call__
 ("eq_call_shallow_copy_of_variables", "C13", [(P, "        prog = copy.deepcopy(self)\n", "        prog = copy.copy(self)\n        prog._operations = copy.deepcopy(self._operations)\n        prog._var = dict(self._var)\n        prog._target = copy.deepcopy(self._target)\n        prog._type = copy.deepcopy(self._type)\n        prog._modes = set(self._modes)\n")]),
 # correct code whose cleanup lives only in a finally block: an injected interruption must
 # never be placed inside (or below) that block
 ("eq_cleanup_only_in_finally", "C12", [(L, "    _VAR.clear()\n    _PARAMS.clear()\n\n    lexer = blackbirdLexer(data)", "    lexer = blackbirdLexer(data)"),
                                        (L, "    walker.walk(blackbird, tree)\n\n    return blackbird.program", "    try:\n        walker.walk(blackbird, tree)\n    finally:\n        _VAR.clear()\n        _PARAMS.clear()\n\n    return blackbird.program")]),
 # the same cleanup written as except BaseException: undo(); raise / else: undo()
 ("eq_digraph_temporary_keys_removed_in_else", "C13", [
     (U, "    grid = {}\n\n    for idx, op in enumerate(program.operations):", "    grid = {}\n    added = []\n    try:\n        for op in program.operations:\n            if 'args' not in op:\n                added.append(op)\n                op['args'] = []\n                op['kwargs'] = {}\n        G_ = _to_DiGraph(program, grid)\n    except BaseException:\n        _strip(added)\n        raise\n    else:\n        _strip(added)\n    return G_\n\n\ndef _strip(added):\n    for op in added:\n        del op['args']\n        del op['kwargs']\n\n\ndef _to_DiGraph(program, grid):\n    for idx, op in enumerate(program.operations):")]),
 ("eq_digraph_temporary_keys_removed_in_finally", "C13", [
     (U, "    grid = {}\n\n    for idx, op in enumerate(program.operations):", "    grid = {}\n    added = []\n    try:\n        for op in program.operations:\n            if 'args' not in op:\n                added.append(op)\n                op['args'] = []\n                op['kwargs'] = {}\n        return _to_DiGraph(program, grid)\n    finally:\n        for op in added:\n            del op['args']\n            del op['kwargs']\n\n\ndef _to_DiGraph(program, grid):\n    for idx, op in enumerate(program.operations):")]),
 ("eq_include_read_with_pathlib", "C07", [(L, "        data = antlr4.FileStream(filename)\n", "        import pathlib\n        data = antlr4.InputStream(pathlib.Path(filename).read_bytes().decode(\"ascii\"))\n")]),
 ("eq_include_read_with_pathlib", "C12", [(L, "        data = antlr4.FileStream(filename)\n", "        import pathlib\n        data = antlr4.InputStream(pathlib.Path(filename).read_bytes().decode(\"ascii\"))\n")]),
 # bypasses the open() seam: the I/O faults can no longer fire -> the check must say so
 # (exit 2, "ineffective"), never report a violation
 ("ineffective_include_read_with_os_open", "C07", [(L, "        data = antlr4.FileStream(filename)\n", "        fd = os.open(filename, os.O_RDONLY)\n        try:\n            data = antlr4.InputStream(os.read(fd, 1 << 24).decode(\"ascii\"))\n        finally:\n            os.close(fd)\n")]),
 ("eq_exists_precheck", "C07", [(L, "        cwd = os.path.dirname(filename)\n        data = antlr4.FileStream(filename)\n", "        cwd = os.path.dirname(filename)\n        if not os.path.exists(filename):\n            raise FileNotFoundError(filename)\n        data = antlr4.FileStream(filename)\n")]),
 ("eq_abspath_resolution", "C07", [(L, "        filename = os.path.join(self._cwd, ctx.STR().getText()[1:-1])\n", "        filename = os.path.abspath(os.path.join(self._cwd, ctx.STR().getText()[1:-1]))\n")]),
 ("eq_clear_in_finally", "C12", [(L, "    walker.walk(blackbird, tree)\n\n    return blackbird.program", "    try:\n        walker.walk(blackbird, tree)\n    finally:\n        _VAR.clear()\n        _PARAMS.clear()\n\n    return blackbird.program")]),
 ("eq_digraph_from_copies", "C13", [(U, "        args = op.get('args', [])\n        kwargs = op.get('kwargs', {})\n", "        args = list(op.get('args', []))\n        kwargs = dict(op.get('kwargs', {}))\n")]),
 ("eq_sorted_symbols_in_serialize", "C19", [(P, "for p in v.free_symbols}", "for p in sorted(v.free_symbols, key=str)}")]),
 ("eq_regrefs_sorted_consistently", "C19", [(L, "        regref_symbols = list(expr.free_symbols)\n", "        regref_symbols = sorted(expr.free_symbols, key=str)\n")]),
 ("eq_deepcopy_template_include_too", "C07", [(L, "                bb = bb(**operation[\"kwargs\"])\n", "                bb = copy.deepcopy(bb(**operation[\"kwargs\"]))\n")]),
]


def apply_edits(root, edits):
    for rel, old, new in edits:
        path = os.path.join(root, rel)
        raw = open(path, "rb").read()
        crlf = b"\r\n" in raw
        text = raw.decode().replace("\r\n", "\n")
        if text.count(old) < 1:
            raise SystemExit("edit does not apply: %s: %r" % (rel, old[:60]))
        text = text.replace(old, new, 1)
        if crlf:
            text = text.replace("\n", "\r\n")
        open(path, "wb").write(text.encode())


def run_check(prop, pkg, runs, out, seed=0, timeout=1500):
    env = dict(os.environ)
    env.pop("BBSIM_REEXEC", None)
    env.update({"BBSIM_PKG_PATH": pkg, "BBSIM_OUT_DIR": out, "VERIF_SEED": str(seed),
                "BBSIM_SHRINK_BUDGET_S": "20"})
    cmd = [os.path.join(VERIF, "check"), prop]
    if runs:
        cmd += ["--runs", str(runs)]
    t = time.time()
    p = subprocess.run(cmd, cwd=VERIF, env=env, capture_output=True, text=True, timeout=timeout)
    lines = [l for l in p.stdout.splitlines() if l.startswith(("VIOLATION", "  ", "HARNESS"))]
    return p.returncode, time.time() - t, lines[:6], p.stdout[-300:] + p.stderr[-300:]


def suite_passes(pkg):
    """Does the repository's suite still give the baseline with this copy?"""
    base = json.load(open("/root/.vp/BASELINE.json"))
    env = dict(os.environ)
    env["PYTHONPATH"] = pkg
    p = subprocess.run(["/venv/bin/python", "-m", "pytest", "-q", "-p", "no:cacheprovider", "--timeout=900",
                        "--junitxml", pkg + "/../junit.xml", os.path.join(pkg, "blackbird", "tests")],
                       cwd=os.path.dirname(pkg), env=env, capture_output=True, text=True)
    import xml.etree.ElementTree as ET
    passed = set()
    try:
        for tc in ET.parse(pkg + "/../junit.xml").getroot().iter("testcase"):
            if not list(tc):
                passed.add(tc.get("classname").split("tests.")[-1] + "::" + tc.get("name"))
    except Exception:
        return None
    want = set(x.split("tests.")[-1] for x in base["stable_pass"])
    return len(want - passed)


def main():
    ap = argparse.ArgumentParser()
    ap.add_argument("--only")
    ap.add_argument("--patch")
    ap.add_argument("--prop")
    ap.add_argument("--runs", type=int)
    ap.add_argument("--skip-suite", action="store_true")
    ap.add_argument("--expect-silent", action="store_true")
    ap.add_argument("--seed", type=int, default=0, help="VERIF_SEED for the check runs")
    a = ap.parse_args()
    work = "/dev/shm/bbsim_mut.%d" % os.getpid()
    report = {}
    ok = True
    RUNS = {"C07": 1200, "C12": 1200, "C13": 1600, "C19": 600}
    try:
        jobs = []
        if a.patch:
            jobs.append((os.path.basename(os.path.dirname(os.path.abspath(a.patch))) or "patch", a.prop, a.patch,
                         not a.expect_silent))
        else:
            for name, prop, edits in MUTANTS:
                jobs.append((name, prop, edits, True))
            for name, prop, edits in EQUIVALENT:
                jobs.append((name + ":" + prop, prop, edits, False))
        for name, prop, edits, expect_violation in jobs:
            if a.only and a.only not in name:
                continue
            shutil.rmtree(work, ignore_errors=True)
            os.makedirs(work)
            pkg = os.path.join(work, "blackbird_python")
            shutil.copytree(SRC, pkg, ignore=shutil.ignore_patterns("__pycache__", "*.egg-info"))
            if isinstance(edits, str):
                r = subprocess.run(["patch", "-p1", "-d", work, "-i", os.path.abspath(edits)], capture_output=True, text=True)
                if r.returncode != 0:
                    # patches are relative to the repository root
                    raise SystemExit("patch failed: " + r.stdout + r.stderr)
            else:
                apply_edits(pkg, edits)
            missing = None if a.skip_suite else suite_passes(pkg)
            rc, secs, lines, tail = run_check(prop, pkg, a.runs or RUNS[prop], os.path.join(work, "out"), seed=a.seed)
            good = (rc == 1) if expect_violation else (rc == 0)
            if name.startswith("ineffective_"):
                good = (rc == 2)
            ok = ok and good
            report[name] = {"property": prop, "expect": "violation" if expect_violation else "silent",
                            "exit": rc, "seconds": round(secs, 1), "as_expected": good,
                            "suite_stable_pass_missing": missing, "first_lines": lines,
                            "tail": None if good else tail}
            print("%-45s %s exit=%d %5.1fs suite_missing=%s %s" % (name, prop, rc, secs, missing,
                                                                  "ok" if good else "NOT AS EXPECTED"))
            for l in lines[:2]:
                print("      " + l[:220])
            sys.stdout.flush()
    finally:
        shutil.rmtree(work, ignore_errors=True)
    if not a.patch and not a.only:
        os.makedirs(os.path.join(VERIF, "selftest"), exist_ok=True)
        with open(os.path.join(VERIF, "selftest", "sensitivity.json"), "w") as f:
            json.dump(report, f, indent=1)
    print("SELFTEST sensitivity: %s" % ("ok" if ok else "FAILED"))
    return 0 if ok else 2


if __name__ == "__main__":
    sys.exit(main())
