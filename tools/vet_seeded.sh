#!/bin/bash
# vet one sub-agent deliverable: tools/vet_seeded.sh <worktree> <seeded-id>
# confirms: suite unchanged with the change, demo fails with / passes without the change
set -u
WT=$1; ID=$2
D=/verif/seeded/$ID
mkdir -p $D
git -C $WT diff > $D/patch.diff
cp $WT/demo.py $D/demo.py
echo "patch: $(grep -c '^[+-][^+-]' $D/patch.diff) changed lines in $(grep -c '^diff' $D/patch.diff) file(s)"
cd $WT
PYTHONPATH=$WT/blackbird_python /venv/bin/python -m pytest -q -p no:cacheprovider --timeout=900 --junitxml=/tmp/vet_$ID.xml blackbird_python >/dev/null 2>&1
/venv/bin/python - $ID <<'P'
import json,sys
import xml.etree.ElementTree as ET
base=json.load(open('/root/.vp/BASELINE.json'))
passed=set()
for tc in ET.parse('/tmp/vet_%s.xml'%sys.argv[1]).getroot().iter('testcase'):
    if not list(tc): passed.add(tc.get('classname')+'::'+tc.get('name'))
want=set(base['stable_pass'])
print('suite_with_change: stable_pass missing=%d extra_pass=%d'%(len(want-passed),len(passed-want)))
P
PYTHONPATH=$WT/blackbird_python timeout 600 /venv/bin/python demo.py > /tmp/vet_$ID.with.txt 2>&1; echo "demo_with_change exit=$?"
git apply -R $D/patch.diff
PYTHONPATH=$WT/blackbird_python timeout 600 /venv/bin/python demo.py > /tmp/vet_$ID.without.txt 2>&1; echo "demo_without_change exit=$?"
git apply $D/patch.diff
tail -3 /tmp/vet_$ID.with.txt
