#!/bin/bash
# Every committed finding replay must (a) reproduce on the tree it was found on
# (the pinned snapshot 2369f33, before the fix: commits) and (b) be silent on /repo as it is.
set -u
cd /verif
OLD=/dev/shm/bbsim_pinned.$$
mkdir -p $OLD && git -C /repo archive 2369f33 blackbird_python | tar -x -C $OLD
rc=0
for f in findings/*.json; do
  p=$(basename $f | cut -c1-3)
  BBSIM_OUT_DIR=$OLD/out BBSIM_PKG_PATH=$OLD/blackbird_python ./check $p --replay $f >/dev/null 2>&1; a=$?
  ./check $p --replay $f >/dev/null 2>&1; b=$?
  echo "$f pinned_tree_exit=$a current_tree_exit=$b"
  [ $a -eq 1 ] && [ $b -eq 0 ] || rc=1
done
rm -rf $OLD
exit $rc
